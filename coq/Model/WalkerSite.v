(* Model/WalkerSite.v — the facts the translator (harness/cmd/extract walker) reads off every consumer of the graph
   walker and every graph-mutating call in src/accountant, and what they mean in terms of Model/Walker.v and
   Model/StreamLock.v. *)
From Coq Require Import List String Arith Bool.
From Verif Require Import Walker.
Import ListNotations.

Record wsite := WSite {
  ws_fn : string; ws_line : nat;
  ws_defer : bool;        (* `defer drainWalker(ids)` registered before the range loop *)
  ws_undrained : nat;     (* exits from the range loop (return / break out / goto) not directly preceded by drainWalker(ids) *)
  ws_signals : nat;       (* uses of the walker's signal channel *)
  ws_other : nat;         (* uses of the id channel other than `range` and drainWalker *)
  ws_ranges : nat;        (* range loops over the id channel *)
  ws_ledger : nat;        (* ledger lock held where the walk starts: 0 none, 1 read, 2 write *)
  ws_errchk : bool        (* AncestorsWalker's error is checked (a nil channel would block the range forever) *)
}.
Record gwriter := GWriter { gw_fn : string; gw_line : nat; gw_method : string; gw_ledger : nat; gw_inwalk : bool }.

(* how the consumer leaves the loop early, as a strategy of Model/Walker.v *)
Definition strategy_of (s : wsite) : strategy :=
  if Nat.ltb 0 (ws_signals s) then SignalThenReturn
  else if ws_defer s || Nat.eqb (ws_undrained s) 0 then Drain else ReturnNoSignal.

Definition wsite_ok (s : wsite) : bool :=
  Nat.eqb (ws_signals s) 0 && Nat.eqb (ws_other s) 0 && (ws_defer s || Nat.eqb (ws_undrained s) 0)
  && Nat.eqb (ws_ranges s) 1 && Nat.leb 1 (ws_ledger s) && ws_errchk s.
Definition gwriter_ok (g : gwriter) : bool := Nat.eqb (gw_ledger g) 2 && negb (gw_inwalk g).

(* the streamer is "guarded" (Model/StreamLock.v) when every walk runs under the ledger lock and every graph write
   under the ledger write lock: then no graph writer can be pending while a walk is in progress *)
Definition guarded_of (sites : list wsite) (ws : list gwriter) : bool :=
  forallb (fun s => Nat.leb 1 (ws_ledger s)) sites && forallb gwriter_ok ws.
Definition tree_ok (drain_ok : bool) (sites : list wsite) (ws : list gwriter) : bool :=
  drain_ok && forallb wsite_ok sites && forallb gwriter_ok ws.
