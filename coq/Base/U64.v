(* Base/U64.v — Go uint64 arithmetic written out over Z. *)
From Coq Require Export ZArith List Lia Bool.
Export ListNotations.
Open Scope Z_scope.

Definition W : Z := 18446744073709551616.   (* 2^64 *)
Definition MAXU : Z := 18446744073709551615. (* math.MaxUint64 *)
Definition wrap (x : Z) : Z := x mod W.
Definition u64 (x : Z) : Prop := 0 <= x < W.

Lemma W_pos : 0 < W. Proof. reflexivity. Qed.
Lemma MAXU_W : MAXU = W - 1. Proof. reflexivity. Qed.
Ltac wrap_lia := unfold wrap, u64, W, MAXU in *; Z.div_mod_to_equations; lia.
Lemma wrap_small x : 0 <= x < W -> wrap x = x.
Proof. intros H. wrap_lia. Qed.
Lemma wrap_u64 x : u64 (wrap x).
Proof. wrap_lia. Qed.
Lemma wrap_add_W x : 0 <= x < W -> wrap (x + W) = x.
Proof. intros H. wrap_lia. Qed.
Lemma wrap_sub_W x : W <= x < 2 * W -> wrap x = x - W.
Proof. intros H. wrap_lia. Qed.
Lemma wrap_neg x : - W <= x < 0 -> wrap x = x + W.
Proof. intros H. wrap_lia. Qed.
