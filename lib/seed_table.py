#!/usr/bin/env python3
"""Print the DESIGN 10.4 table from seeded/*/meta.json."""
import json, glob, os, re
ROOT = os.path.dirname(os.path.dirname(os.path.abspath(__file__)))
rows = []
for d in sorted(glob.glob(os.path.join(ROOT, "seeded", "*"))):
    m = json.load(open(os.path.join(d, "meta.json")))
    name = os.path.basename(d)
    summ = (m.get("summary") or m.get("why_it_breaks") or "")[:160].replace("|", "/").replace("\n", " ")
    files = ", ".join(sorted({os.path.basename(f) for f in (m.get("files") or [])}))[:60]
    conf = m.get("confirmed") or {}
    c = "yes" if conf.get("patch_applies") and conf.get("builds") and conf.get("suite_passes") and conf.get("demo_fails_on_changed") and conf.get("demo_passes_on_original") else ("-" if m.get("benign") else "partly")
    res = []
    for p, r in sorted((m.get("checks") or {}).items()):
        if m.get("benign"):
            res.append("%s: %s" % (p, "no alarm" if r["exit"] == 0 else "ALARM"))
        elif r.get("caught"):
            first = (r.get("first") or [""])[0].split(":")[0][:60]
            res.append("%s: VIOLATION%s (%s)" % (p, " no-failing-input-found" if r.get("no_failing_input") else "", first))
        else:
            res.append("%s: missed" % p)
    rows.append("| %s | %s | %s | %s | %s |" % (name, summ, files, c, "; ".join(res)))
print("| seed | change | file | confirmed (applies, builds, suite passes, demo fails/passes) | quick check result |")
print("|------|--------|------|------|------|")
print("\n".join(rows))
