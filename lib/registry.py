"""Registry: one entry per property claimed. gen_manifest.py turns it into MANIFEST.json."""
CLAIMED = {
 "C05": {
  "engine": "purefh+extraction",
  "technique": "Coq proof of exactness over Z with explicit uint64 wrap (lia/nia); extracted-OCaml differential vs Go on exhaustive boundary product; math/big monitor",
  "text": "Theorems C05_supply_exact / transfer_exact / drain_exact: on canonical operands the modelled Supply/Transfer/Drain succeed iff the unbounded-integer result is representable / funds suffice, move exactly the amount and stay canonical; C05_failure_atomic for all 2^64 operands. The model (Spice.v, uint64 wrap written out) is compared with the Go code on every run over the full boundary product by the extracted model; a math/big oracle evaluates the property on the Go results.",
  "note": "Assumes Spice.v corresponds to spice.go (checked differentially on ~3.4e5 cases per quick run, every word of every result). Ledger-level canonicity is decided in the ledger checks (C01/C09 monitors).",
  "design_ref": "6 C05",
 },
}
LEDGER_NOTE = ("Theorems are about coq/Model/Ledger.v (hand-written, hashes/addresses as N, uint64 as Z with explicit wrap, Vertex.verify outcome as an input, "
               "Go map order / cancellation / cut as universally quantified hints). Tie: every step of every generated history on real AccountingBook "
               "instances is replayed by the model inside coqc (result class + full snapshot projection must agree). Side conditions: hashes the node "
               "computes itself are fresh (sha256), CreateGenesis runs on a node without ledger; locked regions atomic (C18).")
CLAIMED.update({
 "C03": {
  "engine": "ledgerh+CheckLedger",
  "technique": "Coq invariant by induction over all operation sequences (reach_Inv); trace-acceptor correspondence vs real AccountingBook; snapshot monitor",
  "text": "C03_unique_and_index_exact: on every reachable ledger (any sequence of genesis/propose/gossip-add/retry/truncate/trust calls, any arguments, tip orders, cancellation points, cuts) vertex hashes and transaction hashes are duplicate-free over live DAG + checkpoint and the index maps each transaction exactly to its holder; replayed vertices, replayed transactions in new wrappers and replayed proposals are refused with the ledger unchanged; a dropped tip frees its transaction. Monitors evaluate the same predicate on every snapshot of the implementation.",
  "note": LEDGER_NOTE, "design_ref": "6 C03",
 },
 "C10": {
  "engine": "ledgerh+CheckLedger",
  "technique": "Coq invariant by induction over all operation sequences (reach_Inv); trace-acceptor correspondence; snapshot monitor",
  "text": "C10_sealing_rules: every vertex of every reachable ledger (live or checkpointed; proposed, gossiped or retried) passed the guards issuer<>sealer, not empty, issuer<>genesis wallet, or is the genesis vertex whose receiver differs from its issuer; guard theorems for both entry paths. Crafted self-sealed / genesis-issued / empty vertices are driven through all three entry paths of the real code and compared with the model.",
  "note": LEDGER_NOTE + " LoadDag: see C14 (the load-time guard alone is weaker).", "design_ref": "6 C10",
 },
})
CLAIMED.update({
 "C09": {
  "engine": "ledgerh+CheckLedger",
  "technique": "Coq graph invariant by induction over all operation sequences (reach_InvG: edges = declared live parents, absent parents checkpointed, topological list order => acyclic); trace-acceptor correspondence; snapshot monitor with real signature re-verification",
  "text": "C09_acyclic, C09_edges_exact: on every reachable ledger the graph is acyclic (every edge strictly increases a rank), each live vertex has exactly one edge from each declared parent that is live and from nothing else, and a declared parent that is not live is checkpointed (genesis excepted) - through dropped tips, rolled-back additions, equal parents and truncation. C09_created_vertex: created vertices reference live tips returned by the validation pass and weigh max+1 as a uint64; C09_created_weight_wraps_refuted: on a parent of weight 2^64-1 (admissible by gossip: the weight window has no upper bound) the created weight is 0 (KNOWN-FINDING, reproduced on the real code on every run). C09_unverified_never_admitted. The snapshot monitor recomputes digests/signatures of every vertex of the implementation with the real verifier and compares graph edges with declared parents.",
  "note": LEDGER_NOTE + " Zero hash is reserved for 'no parent' (no vertex carries it).", "design_ref": "6 C09",
 },
})
CLAIMED.update({
 "C01": {
  "engine": "ledgerh+CheckLedger",
  "technique": "Coq: validateLeaf's two-part uint64 accounting proved equal to a Z inequality (validate_ok_covers via C05 exactness), lifted over all operation sequences/hints to 'a tip gets a child only if covered'; trace-acceptor correspondence; big.Int monitor on every snapshot pair",
  "text": "C01_validation_sound + C01_gossip/retry/proposal_confirms_only_covered: in every reachable ledger, for every tip order, cancellation point and amount, a vertex acquires its first child (the only way to become confirmed; C01_truncation_confirms_nothing_new) only if checkpointed funds + inflow >= outflow over its own history in unbounded integers, unless it moves no spice, is a root, or its sealer is in the trusted store; failing tips are dropped with their index entry (C01_failing_tip_dropped, C03_dropped_can_be_reproposed); C01_chain gives solvency on chains. The monitor recomputes the inequality with math/big from declared parents on every newly confirmed vertex of the real ledger.",
  "note": LEDGER_NOTE + " History = ancestors as computed by the model's one-pass walk over the topologically ordered vertex list (order invariant proved: reach_InvG).", "design_ref": "6 C01",
 },
 "C02": {
  "engine": "ledgerh+CheckLedger",
  "technique": "Coq: conservation theorem over any vertex collection obeying the sealing rules (induction, indicator sums); kernel-checked 4-operation counterexample to union solvency (merge) = known finding; big.Int monitor at quiescence on every node",
  "text": "C02_supply_conserved: over any collection of vertices of a reachable ledger the balances of all non-genesis wallets add up exactly to what genesis issued (supply neither grows nor shrinks). The 'no wallet overdrawn over the union of confirmed vertices' half is refuted by the faithful model and by the code (C02_solvent_refuted_by_merge, KNOWN-FINDING merge-double-spend); what holds is per-history coverage (C01) and solvency on chains (C02_solvent_on_chain). The monitor evaluates solvency and conservation with math/big on the confirmed set of every node at quiescence and classifies an overdraft as the known merge case only if every confirmed vertex is covered in its own history.",
  "note": LEDGER_NOTE, "design_ref": "6 C02",
 },
 "C06": {
  "engine": "ledgerh+CheckLedger",
  "technique": "Coq: CalculateBalance's accumulation proved equal to the Z reference sum (soundness for every cancellation point, completeness without cancellation), value-determined canonical form; trace-acceptor correspondence (balance in {f(tip)}); big.Int monitor + purity check on every query",
  "text": "C06_balance_is_reference_sum, C06_negative_is_error, C06_nonnegative_is_reported, C06_same_vertices_same_balance: any number the query reports is canonical and equals checkpoint + received - sent over one tip and its ancestors; a negative sum is an error; a non-negative one is reported (flows representable); ledgers with the same history vertices and funds report the same value. The query has no ledger output in the model; the harness compares snapshots before/after every real query and the reported value with a math/big reference per tip.",
  "note": LEDGER_NOTE + " 'tip' is the tip the Go map range ends on (hint; the acceptor accepts any tip).", "design_ref": "6 C06",
 },
})
CLAIMED.update({
 "C07": {
  "engine": "ledgerh+CheckLedger",
  "technique": "Coq: truncation permutes the vertex collection (Permutation proof over the one-pass ancestor split), by-hash reads are preserved, invariants survive, only confirmed vertices are checkpointed; ancestors_spec ties the walk to the declarative ancestor relation; trace acceptor with injected >=1010-vertex states; before/after monitors on the real ledger",
  "text": "C07_balance_preserved / C07_reported_balance_unchanged (for every surviving vertex that is the cut or descends from it and every address: the exact reference sum - hence the number the query reports - is the same before and after, via the one-pass-walk-on-the-stripped-graph lemma and the permutation 'removed part of the history = moved set'), C07_validation_preserved (the C01 cover test gives the same verdict), C07_checkpoint_adds_net_flow_of_moved + C07_moved_counted_once + C07_checkpoint_is_net_flow (for every operation sequence with any number of truncations, checkpointed funds = net flow of the checkpointed vertices, each counted once; other operations touch neither side), C07_vertex_lookup_preserved / C07_transaction_lookup_preserved, C07_collection_permuted + C07_invariants_survive (so all C03 replay theorems hold across truncations), C07_checkpoints_confirmed_only, C07_short_history_refused, C07_checkpoint_funds_canonical. Side conditions of the balance/funds theorems: address not one of the 32-character strings the reload skips, sums representable, wallet not overdrawn below the cut (else KNOWN-FINDING). Monitors evaluate the same statements on real truncations, incl. repeated truncation with a wallet drained to exactly zero in between.", "note": LEDGER_NOTE + " The cut is a hint (any ancestor of a tip with >= truncateDiff ancestors); which vertex BFS reaches as the 1000th is decided by Go map order.", "design_ref": "6 C07",
 },
 "C13": {
  "engine": "ledgerh+CheckLedger",
  "technique": "Coq: parking/reporting, bounds, retry = admission path, invalid never admitted, nothing admitted twice (invariants over all sequences); liveness of a parked vertex and completeness of validateLeaf; order-independence proved by refinement to an abstract (admitted, queue) machine with a pass-counting drain argument, for every closed set delivered in any order with ticks anywhere within the buffer/retry bounds, under the premise that no examined tip is refused along the run; kernel-checked counterexample when a tip IS refused (weight window); model-vs-code acceptor over seeded (quick) / many (thorough) delivery permutations plus a final-ledger monitor against parents-first delivery",
  "text": "C13_unknown_parent_reported_and_parked, C13_buffer_and_retry_bounds (constants regenerated from the source), C13_retry_is_admission_path, C13_invalid_never_admitted, C13_nothing_admitted_twice, C13_retry_respects_funds, C13_parked_vertex_admitted_once_parents_present, C13_valid_parent_passes (validateLeaf accepts every verified, covered tip inside the weight window). C13_any_order_all_admitted / C13_any_two_orders_agree: any delivery order of a new, parent-closed set S with retry ticks anywhere (|S| < maxArraySize, 1 + ticks + |S| <= maxRepeats) ends - after drain_k more ticks - with an empty buffer and exactly the old graph plus S (declared edges, index), hence the same ledger as parents-first delivery, provided no examined parent tip is refused along the run (boolean fine_runb evaluated on the run; Example confluence_instance meets all premises). C13_order_independence_refuted: without that premise the final ledger DOES depend on the order of independent vertices - a heavy tip raises the node's weight before a light tip is validated (KNOWN-FINDING not-confluent:weight-window, reproduced on the real code on every run). The real ledger is run over permutations of a valid vertex set with duplicates, interleaved proposals and retries, comparing the final vertex/edge/index sets with parents-first delivery, and every step with the model.",
  "note": LEDGER_NOTE + " The no-refusal premise of the confluence theorem is a property of the run (decidable by evaluation, implied by C13_valid_parent_passes at each step), not derived from a static condition on S alone; without it confluence is refuted (weight window).", "design_ref": "6 C13",
 },
 "C14": {
  "engine": "ledgerh+CheckLedger",
  "technique": "Coq: all-or-nothing loaded flag and refusal of every malformed-stream class of the property; reproduction of the peer's ledger decided by the acceptor on real StreamDAG->LoadDag runs plus snapshot/balance/follow-up monitors",
  "text": "C14_one_genesis (reachable ledgers have at most one parentless vertex: the genesis vertex sealed by the genesis wallet), C14_load_reproduces_peer (for every reachable peer that never truncated and still holds its non-empty genesis vertex, for EVERY order of the stream: the load succeeds and the loaded node holds exactly the peer's vertices with set-equal parent links, the same transaction index as a map, the same genesis wallet, and answers every balance query - any address, tip, cancellation point - exactly as the peer), C14_premises_satisfiable (a concrete reachable peer meets the premises), C14_failure_leaves_not_loaded, C14_malformed_stream_refused (second self-sealed vertex, empty transaction, non-canonical amount, duplicate vertex/transaction, unknown parent or cycle), C14_followup_verdicts_refuted (the admission counters weight/throughput are NOT reproduced: kernel-checked pair of ledgers answering the same later vertex differently; KNOWN-FINDING reproduced on the real code on every run). The harness loads real streams into real nodes (5 stream corruptions), compares snapshots, balances and follow-up gossip; KNOWN-FINDING: a peer that has truncated cannot be loaded from.", "note": LEDGER_NOTE + " The reproduction theorem fixes the children-first witness order to the peer's own order (the model's load takes such an order as a hint; the code's graph library needs none); after truncation the premise st_vtx = [] fails (known finding).", "design_ref": "6 C14",
 },
})
CLAIMED.update({
 "C20": {
  "engine": "purefh+coqc",
  "technique": "Coq theorems over an abstract AEAD/codec (section hypotheses): round trip, no panic for any key/file, wrong key / any other file / any truncation => error; exhaustive truncation + byte-position differential against the real file operations",
  "text": "C20_roundtrip, C20_never_crashes (for every key and file), C20_wrong_key_is_error, C20_altered_file_is_error, C20_truncated_file_is_error (all lengths). The theorems' own content is the nonce framing, the key/length guards and the error plumbing of Encrypt/Decrypt/SaveWallet/ReadWallet; AES-GCM authenticity and the gob round trip are explicit premises. The harness runs the real code over all truncation lengths and all byte positions of every generated file and compares the outcome class with the model's decision list.",
  "note": "Cryptography is assumed (H-aead, H-gob, H-pem), not proved; the model's framing/guards are tied to aes.wrapper.go and fileoperations/wallet.go by the per-run differential check.", "design_ref": "6 C20",
 },
})
CLAIMED.update({
 "C04": {
  "engine": "purefh+coqc",
  "technique": "Coq: injectivity of the fixed-width vertex message, what a verifying vertex/transaction pins under H-sha/H-sig, kernel-checked refutations for the two unpinned cases (known findings); mutation engine over every class of the property against real Vertex.verify + AddLeaf, decision list and byte layouts compared in coqc",
  "text": "C04_vertex_message_injective, C04_vertex_fields_pinned (hash, transaction hash, parents, time, weight, sealer), C04_trx_fields_pinned_partial (time, amounts, hash, concatenation of the text fields), C04_unsigned_rejected, C04_verify_never_panics; C04_message_boundary_refuted and C04_receiver_strip_refuted state exactly where tamper evidence fails (both KNOWN-FINDINGs, reproduced on the real code on every run). At the ledger, C09_unverified_never_admitted: a vertex that does not verify changes nothing. The harness applies every mutation class to real signed vertices and requires rejection by Vertex.verify and by AddLeaf with an identical snapshot.",
  "note": "sha256/ed25519/base58 are premises. The model's decision list (which checks, in which order, receiver check only when a signature is present) and both byte layouts are compared with the code on every run; ground-truth facts come from an independent re-implementation in the harness.", "design_ref": "6 C04",
 },
})
CLAIMED.update({
 "C19": {
  "engine": "purefh+coqc",
  "technique": "Coq round-trip theorems for the wire mapping (incl. uint64/int64 timestamp arithmetic) and for the WHOLE msgpack form of Transaction, Vertex and Melange (fixmap, fixstr keys, fixstr/str8/16/32, nil/bin8/16/32, ext -1 time in its 4/8/12-byte forms, 0xcf uint64) over all field contents, with injectivity; the struct layout is regenerated from the Go struct tags on every run and compared by a kernel-evaluated theorem; byte-exact differential of the modelled encoders against msgpack.Marshal, field-wise round-trip and stability monitors for protobuf and msgpack on the boundary sweep; and for the protobuf WIRE form (base-128 varints, proto3 presence rules, length-delimited strings / bytes / embedded Transaction and Spice, a record-grammar decoder: any order, unknown fields and fixed-width records skipped, last scalar wins, repeated sub-messages merged, UTF-8 validated; the VrxMsgGossip/TrxMsgGossip envelopes with their repeated Gossiper list): round trip of every wire struct, of the wire struct of every storable vertex and of both envelopes, injectivity, independence of record order, Marshal refuses exactly the non-UTF-8 messages; model encoder byte-exact against proto.Marshal, model decoder against proto.Unmarshal on the real bytes, on reordered records + an unknown field, on every proper prefix and on byte-level edits of the real bytes",
  "text": "C19_proto_roundtrip (all fields, all int64-nanosecond instants); C19_msgpack_uint64_roundtrip, C19_msgpack_time_roundtrip; C19_msgpack_layout_is_the_source_layout (tags, order and kinds of the three structs as declared in the source now), C19_msgpack_encoders_follow_layout, C19_msgpack_transaction_roundtrip / C19_msgpack_vertex_roundtrip (every string/byte-string length below 2^32 incl. nil slices, any bytes, all 2^64 integers, all int64 seconds and nanoseconds; whatever follows in the input), C19_msgpack_encoding_injective. C19_protowire_varint_roundtrip (all 2^64 values), C19_protowire_message_roundtrip (every wire struct with UTF-8 strings: empty or absent fields, nil sub-messages, every length), C19_protowire_marshal_unmarshal, C19_protowire_non_utf8_has_no_wire_form / C19_protowire_non_utf8_not_read (the known finding as theorems of the model, utf8_valid = RFC 3629), C19_protowire_vertex_roundtrip (the wire struct of every well-formed vertex), C19_protowire_encoding_injective, C19_protowire_any_record_order (every permutation of the records reads as the same vertex), C19_protowire_vertex_envelope_roundtrip / C19_protowire_transaction_envelope_roundtrip (VrxMsgGossip / TrxMsgGossip with the repeated Gossiper list: same entries, same order), C19_protowire_unknown_field_skipped. The harness drives the real mapping functions, proto.Marshal/Unmarshal and both msgpack libraries over the property's boundary values and compares every signed field, both signed messages and the verification result; enc_vtx / enc_trx are compared byte-for-byte with the library output and dec_vtx / dec_trx of the real bytes with the generated value (64 kB fields as regenerated pattern segments). enc_pvtx (to_pvtx v) is compared byte-for-byte with proto.Marshal of the mapped vertex, dec_pvtx with the value on those bytes, on the same records reversed with an unknown field appended, with proto.Unmarshal's verdict on every proper prefix of small messages, and on 48 edits per small message (bit flips, 0xff bytes, incremented header bytes, inserted fixed32/fixed64 records, duplicated records) both sides must refuse or read messages with the same canonical bytes; vertices proto.Marshal refuses must be refused by marshal_pvtx; both gossip envelopes with 0-3 gossiper entries are compared byte for byte and decoded back. KNOWN-FINDINGs: non-UTF-8 text cannot go on the wire; a transaction dated exactly at the epoch is refused by wire ingress.",
  "note": "Partial: the shamaton msgpack DECODER is library code exercised by the round-trip monitors, not modelled (the model decoder is proved against the model encoder; the model encoder is byte-exact against the real encoder). Of protobuf, groups (wire types 3/4: deprecated, never produced; the library skips a well-nested unknown group, the model decoder refuses it) are not modelled; fixed32/fixed64 records, unknown fields, duplicate records, merge of repeated sub-messages and UTF-8 validation are.", "design_ref": "6 C19",
 },
})
CLAIMED.update({
 "C17": {
  "engine": "purefh+coqc",
  "technique": "Coq refinement to a map-based specification by induction over all operation sequences (token-level model of the comma-joined lists incl. the leading-comma quirk); kernel-checked lost-update schedule for the unsynchronised variant; trace-acceptor correspondence + reference monitor + concurrent rounds",
  "text": "C17_operations_run_under_the_lock (regenerated table: every call on the store made by Save/Remove/ReadTransactions and their callees holds the cache lock exclusively - the atomicity premise, checked against the source on every run); C17_listed_is_saved_not_removed: for every sequence of save/remove/read calls, for every address, exactly the saved-and-not-removed transactions that have it as issuer or receiver are listed, none twice; C17_save / C17_remove (receiver-only, off both lists, rejected calls change nothing) / C17_read (returns the listing, changes nothing saved); C17_interleaved_rmw_refuted shows the lost update when the get/set actions interleave, which the mutex (fix 1bdecc5) excludes. The harness reads every address after every operation on the real cache and runs concurrent rounds as failing-input search.",
  "note": "Atomicity of the three operations is the premise that turns the sequential theorem into a statement about concurrent use; it rests on the mutex (checked by C18's lock-site translator and the race matrix). Expiry is outside the model.", "design_ref": "6 C17",
 },
})
CLAIMED.update({
 "C11": {
  "engine": "gossiph+CheckGossip",
  "technique": "Coq: invariants and a ranking function over all topologies / origins / schedules of the gossip model (at most once, never to a listed node, forward only after accept, message bound, termination, reach-all at quiescence); trace-acceptor correspondence on a virtual network of real gossiper objects; quiescence monitors",
  "text": "C11_at_most_once, C11_never_sent_to_listed, C11_forward_only_after_accept, C11_messages_bounded (<= sum of out-degrees), C11_terminates (deliveries <= initial rank + duplications), C11_reaches_every_node_exactly_once (at quiescence every node reachable along the peer relation has admitted the item exactly once) - for every peer relation with any number of nodes, every origin, every delivery order and duplication. The harness runs real gossipers with stub peers over real ledgers and compares every delivery (admitted?, forward destinations) with the model.",
  "note": "Model = one item in coq/Model/Gossip.v; the flash window does not expire in the model nor in the runs. Goroutine fan-out of forwards is observed by waiting for the expected number of stub calls (trusted harness glue).", "design_ref": "6 C11",
 },
 "C12": {
  "engine": "gossiph+CheckGossip",
  "technique": "Coq: a verified entry carries a valid signature by that address over address|this hash (injective), invalid entries are ignored by the handler (so C11 applies to verified sets); kernel-checked flash-poisoning counterexample = known finding; forged entries injected at every relay position of the virtual network",
  "text": "C12_verified_entry_is_signed, C12_signed_message_injective, C12_invalid_entries_ignored: entries that are unsigned, signed for another item or by another key do not count, so listing a node neither makes it skip processing nor stops others from forwarding to it. C12_flash_poisoning_refuted (KNOWN-FINDING, reproduced on the real handler on every run): the duplicate-suppression memory is marked before verification, so a Byzantine relay that delivers a corrupted copy first makes an honest node with an honest path drop the genuine copies.",
  "note": "H-sig for the signature facts (premise). The delivery guarantee against Byzantine relays holds for the gossiper-list mechanism only; the handler as written is refuted by flash poisoning.", "design_ref": "6 C12",
 },
})
CLAIMED.update({
 "C15": {
  "engine": "rpch+extraction",
  "technique": "Coq: handlers as programs over message shapes (every length, every presence pattern, every dependency outcome); a static analysis proved sound (safe_sound, quiet_sound) accepts all 18 handlers (17 RPCs + the peer-vertex fetch ingress) => no panic for any shape, clean rejections; kernel-checked counterexample for Confirm/Reject (known finding); exhaustive shape-class enumeration on the real handlers vs the extracted model",
  "text": "C15_analysis_sound + C15_no_handler_panics: none of the notary, gossip and webhook handlers nor the peer-vertex ingress can panic, for all field lengths, sub-message presence patterns and dependency outcomes (the only crash primitives of these handlers are the fixed-size conversions and sub-message dereferences, which the guards added by fix 61edbd9 dominate). C15_rejected_request_mutates_nothing for 15 handlers; C15_confirm_reject_refuted (KNOWN-FINDING). The harness enumerates the full product of shape classes x dependency outcomes (~2.2e5 cases) on the real handler objects under recover() and compares outcome and mutation list with the model on every case.",
  "note": "The handler programs are hand-transcribed (order of guards, conversions, dependency calls); the exhaustive differential run is what ties them to the code. Dependencies are stubs: crashes inside the real ledger / verifier are covered by C09 / C04 / the createleaf-panic finding.", "design_ref": "6 C15",
 },
})
CLAIMED.update({
 "C16": {
  "engine": "notaryh+CheckNotary",
  "technique": "Coq: notary state machine, invariant over all call sequences + single-step characterisation of what seals a contract, signature/challenge theorems; trace-acceptor correspondence on the real server object with real cache/challenge store/ledger; monitors",
  "text": "C16_invariant_all_sequences (contracts sealed only by Confirm/Reject, Propose seals only data-free transactions, nothing sealed twice), C16_contract_needs_receiver (the sealing call carries valid issuer+receiver signatures for a transaction awaiting here, or is a Reject verified under the receiver's address), C16_bad_signature_changes_nothing, C16_pure_transfer_on_issuer_signature, C16_waiting/history_needs_challenge, C16_balance_needs_own_signature, C16_expired_challenge_refused. The harness runs honest and dishonest clients against the real server and compares every response and the awaiting/sealed state after every call.",
  "note": "Confirm seals the CALLER's copy of the transaction (same hash and signatures as the cached one; C04's boundary ambiguity lets subject/data differ) and Confirm/Reject lose the awaiting entry when sealing fails (C15 known findings). Throttling (flash memory) is an input of the model.", "design_ref": "6 C16",
 },
})
CLAIMED.update({
 "C08": {
  "engine": "extract-walker+conch",
  "technique": "Coq: walker/consumer protocol and stream/writer lock protocol as transition systems, progress + strictly decreasing measure for every n, k and interleaving; model inputs (walker sites, graph-write sites, locks held) regenerated from the Go source by an AST translator and the discipline re-proved on every run; dynamic cancellation sweep with goroutine profile on the real ledger",
  "text": "C08_no_lock_left_held (regenerated table of function exits on which a lock taken without a deferred unlock may still be held: empty); C08_tree_discipline (over the regenerated site table: every consumer of the graph walker drains it on every exit, never uses the signal channel, checks its error, walks under the ledger lock; every graph write holds the ledger write lock outside any walk) => C08_no_walk_wedges: for every site, every history size n, every cancellation/cut/error point k and every interleaving the walk ends with the graph read lock released and the consumer returned (progress + measure); C08_stream_never_deadlocks: walker + nested graph reads + any number of writers, any interleaving, never deadlock and terminate. The strategies of the code before the fixes are refuted in the model (lock leak, send on closed channel, recursive-read-lock deadlock). The harness cancels every operation after k = 0..n+2 polls, truncates (also cancelled), streams to slow and vanishing consumers under concurrent proposals, and probes the node + goroutine profile after each scenario.",
  "note": "The walker itself (heimdalr/dag v1.3.1) and sync.RWMutex writer preference are modelled by hand, not translated. 'Every later operation completes' is shown for the lock/channel protocol; termination of badger calls and signature checks is assumed. Lock facts come from a syntactic analysis (top-of-function Lock/defer Unlock; inherited by unexported callees).", "design_ref": "6 C08",
 },
})
CLAIMED.update({
 "C18": {
  "engine": "extract-locks+conch-race",
  "technique": "Coq: lockset discipline decided over an access table regenerated from the Go source (AST translator: field accesses of lock-owning structs, locks held incl. inherited and inline regions, goroutine roots) + reader/writer-lock exclusion theorem by induction over acquire/release sequences => no two conflicting accesses simultaneously enabled; Go race detector over an operation-pair matrix on the real node as dynamic oracle and failing-input search",
  "text": "C18_lockset_discipline (over the regenerated table: every pair of accesses to one field, one a write, reachable from two goroutines of a serving node, holds a common lock with one side exclusive), C18_rw_lock_excludes (for every acquire/release history a writer never coexists with another holder), C18_no_simultaneous_conflicting_access (for every lock state and every two goroutines). The orphan buffer before fix ea90eff is refuted in the model. The race binary runs every pair of ledger operations, the real retry ticker, truncation under load and the gossip peer table operations under the Go race detector.",
  "note": "partial: the theorem covers mutable fields of lock-owning structs in accountant/cache/gossip under a syntactic lock analysis; races on captured locals, through aliased slice elements or inside libraries are only searched dynamically. The race detector itself judges only the interleavings the workload produces.",
  "design_ref": "6 C18", "category": "proof",
 },
})
NOT_YET = {}

# commits in /repo that add the guarded hooks (build tag verif; new files only)
HOOK_COMMITS = ["86dc6d7", "4eab456", "3c8adb9", "2c13ec8", "88288b2", "3efce54", "29da8e0"]
