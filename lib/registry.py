"""Registry: one entry per property claimed. gen_manifest.py turns it into MANIFEST.json."""
CLAIMED = {
 "C05": {
  "engine": "purefh+extraction",
  "technique": "Coq proof of exactness over Z with explicit uint64 wrap (lia/nia); extracted-OCaml differential vs Go on exhaustive boundary product; math/big monitor",
  "text": "Theorems C05_supply_exact / transfer_exact / drain_exact: on canonical operands the modelled Supply/Transfer/Drain succeed iff the unbounded-integer result is representable / funds suffice, move exactly the amount and stay canonical; C05_failure_atomic for all 2^64 operands. The model (Spice.v, uint64 wrap written out) is compared with the Go code on every run over the full boundary product by the extracted model; a math/big oracle evaluates the property on the Go results.",
  "note": "Assumes Spice.v corresponds to spice.go (checked differentially on ~3.4e5 cases per quick run, every word of every result). Ledger-level canonicity is decided in the ledger checks (C01/C09 monitors).",
  "design_ref": "6 C05",
 },
}
LEDGER_NOTE = ("Theorems are about coq/Model/Ledger.v (hand-written, hashes/addresses as N, uint64 as Z with explicit wrap, Vertex.verify outcome as an input, "
               "Go map order / cancellation / cut as universally quantified hints). Tie: every step of every generated history on real AccountingBook "
               "instances is replayed by the model inside coqc (result class + full snapshot projection must agree). Side conditions: hashes the node "
               "computes itself are fresh (sha256), CreateGenesis runs on a node without ledger; locked regions atomic (C18).")
CLAIMED.update({
 "C03": {
  "engine": "ledgerh+CheckLedger",
  "technique": "Coq invariant by induction over all operation sequences (reach_Inv); trace-acceptor correspondence vs real AccountingBook; snapshot monitor",
  "text": "C03_unique_and_index_exact: on every reachable ledger (any sequence of genesis/propose/gossip-add/retry/truncate/trust calls, any arguments, tip orders, cancellation points, cuts) vertex hashes and transaction hashes are duplicate-free over live DAG + checkpoint and the index maps each transaction exactly to its holder; replayed vertices, replayed transactions in new wrappers and replayed proposals are refused with the ledger unchanged; a dropped tip frees its transaction. Monitors evaluate the same predicate on every snapshot of the implementation.",
  "note": LEDGER_NOTE, "design_ref": "6 C03",
 },
 "C10": {
  "engine": "ledgerh+CheckLedger",
  "technique": "Coq invariant by induction over all operation sequences (reach_Inv); trace-acceptor correspondence; snapshot monitor",
  "text": "C10_sealing_rules: every vertex of every reachable ledger (live or checkpointed; proposed, gossiped or retried) passed the guards issuer<>sealer, not empty, issuer<>genesis wallet, or is the genesis vertex whose receiver differs from its issuer; guard theorems for both entry paths. Crafted self-sealed / genesis-issued / empty vertices are driven through all three entry paths of the real code and compared with the model.",
  "note": LEDGER_NOTE + " LoadDag: see C14 (the load-time guard alone is weaker).", "design_ref": "6 C10",
 },
})
CLAIMED.update({
 "C09": {
  "engine": "ledgerh+CheckLedger",
  "technique": "Coq graph invariant by induction over all operation sequences (reach_InvG: edges = declared live parents, absent parents checkpointed, topological list order => acyclic); trace-acceptor correspondence; snapshot monitor with real signature re-verification",
  "text": "C09_acyclic, C09_edges_exact: on every reachable ledger the graph is acyclic (every edge strictly increases a rank), each live vertex has exactly one edge from each declared parent that is live and from nothing else, and a declared parent that is not live is checkpointed (genesis excepted) - through dropped tips, rolled-back additions, equal parents and truncation. C09_created_vertex: created vertices reference live tips returned by the validation pass and weigh max+1. C09_unverified_never_admitted. The snapshot monitor recomputes digests/signatures of every vertex of the implementation with the real verifier and compares graph edges with declared parents.",
  "note": LEDGER_NOTE + " Zero hash is reserved for 'no parent' (no vertex carries it).", "design_ref": "6 C09",
 },
})
NOT_YET = {}
