"""Registry: one entry per property claimed. gen_manifest.py turns it into MANIFEST.json."""
CLAIMED = {
 "C05": {
  "engine": "purefh+extraction",
  "technique": "Coq proof of exactness over Z with explicit uint64 wrap (lia/nia); extracted-OCaml differential vs Go on exhaustive boundary product; math/big monitor",
  "text": "Theorems C05_supply_exact / transfer_exact / drain_exact: on canonical operands the modelled Supply/Transfer/Drain succeed iff the unbounded-integer result is representable / funds suffice, move exactly the amount and stay canonical; C05_failure_atomic for all 2^64 operands. The model (Spice.v, uint64 wrap written out) is compared with the Go code on every run over the full boundary product by the extracted model; a math/big oracle evaluates the property on the Go results.",
  "note": "Assumes Spice.v corresponds to spice.go (checked differentially on ~3.4e5 cases per quick run, every word of every result). Ledger-level canonicity is decided in the ledger checks (C01/C09 monitors).",
  "design_ref": "6 C05",
 },
}
NOT_YET = {}
