import argparse
import json
import os
import sys
import time
import traceback

import vlib
from vlib import Ctx, BuildLock

import props


def setup():
    t0 = time.time()
    with BuildLock():
        ok, msg = vlib.regen()
        print("regen:", ok, msg)
        vlib.sh(["coq_makefile", "-f", "_CoqProject", "-o", "Makefile"], cwd=vlib.COQ, check=True)
        vlib.sh(["make", "clean"], cwd=vlib.COQ, timeout=300)
        rc, o, e = vlib.sh(["make", "-j16"], cwd=vlib.COQ, timeout=3000)
        print((o + e)[-3000:])
        if rc != 0:
            print("setup: coq build failed")
            return 1
        okx, log = vlib.build_extraction()
        if not okx:
            print("setup: extraction build failed\n" + log[-3000:])
            return 1
        for tool in props.HARNESS_TOOLS:
            okb, _, log = vlib.build_tool(tool)
            if not okb:
                print("setup: building %s failed\n%s" % (tool, log[-3000:]))
                return 1
    print("setup done in %.1fs" % (time.time() - t0))
    return 0


def coqchk():
    """Independent re-check of every compiled file of the development with coqchk; prints the axioms it relies on.
    Run by hand (tens of minutes); the result is committed as evidence/coqchk.txt."""
    t0 = time.time()
    with BuildLock():
        vlib.regen()
        vlib.ensure_makefile()
        rc, o, e = vlib.sh(["make", "-j16"], cwd=vlib.COQ, timeout=3000)
        if rc != 0:
            print((o + e)[-2000:])
            return 1
        mods = []
        for l in open(os.path.join(vlib.COQ, "_CoqProject")):
            l = l.strip()
            if l.endswith(".v"):
                mods.append("Verif." + os.path.basename(l)[:-2])
        q = []
        for d in ("Base", "Gen", "Model", "Proofs", "Properties", "Run"):
            q += ["-Q", d, "Verif"]
        rc, o, e = vlib.sh(["coqchk", "-silent", "-o"] + q + mods, cwd=vlib.COQ, timeout=7200)
    out = os.path.join(vlib.ROOT, "evidence", "coqchk.txt")
    with open(out, "w") as f:
        f.write("coqchk -silent -o over %d modules of /verif/coq, %s, rc=%d, %.0f s\n\n" % (len(mods), time.strftime("%Y-%m-%d %H:%M:%S"), rc, time.time() - t0))
        f.write(o[-20000:] + e[-5000:])
    print(open(out).read()[-3000:])
    return 0 if rc == 0 else 1


def main(argv):
    if argv and argv[0] == "--setup":
        return setup()
    if argv and argv[0] == "--coqchk":
        return coqchk()
    ap = argparse.ArgumentParser()
    ap.add_argument("prop")
    ap.add_argument("--tier", default=os.environ.get("VERIF_TIER", "quick"))
    ap.add_argument("--replay", default=None)
    a = ap.parse_args(argv)
    seed = int(os.environ.get("VERIF_SEED", "1"))
    if a.prop not in props.PROPS:
        print("unknown property", a.prop)
        return 2
    ctx = Ctx(a.prop, a.tier, seed)
    spec = props.PROPS[a.prop]
    if a.replay:
        return spec["replay"](ctx, a.replay)
    try:
        with BuildLock():
            ok, msg = vlib.regen()
            gate = vlib.grep_gate()
            proofs = vlib.build_proofs(a.prop)
            if not ok:
                proofs["ok"] = False
                proofs.setdefault("failed_at", "translator: " + msg[-500:])
        result = spec["run"](ctx, a.tier)
        result["gate"] = gate
        broken = (not proofs.get("ok")) or result.get("mismatches") or gate
        known = vlib.load_known()
        fresh = [v for v in (result.get("violations") or []) if not vlib.match_known(a.prop, v, known)]
        if broken and not fresh and a.tier == "quick" and spec.get("escalate", True):
            ctx.log("proof or correspondence broke: escalating to a thorough-size failing-input search")
            ctx.search = True  # bounded: a changed tree may make the larger search hang (a lock change that live-locks the stress rounds)
            try:
                r2 = spec["run"](ctx, "thorough")
                result["violations"] = (result.get("violations") or []) + [v for v in r2.get("violations", [])
                                                                            if v.get("key") not in {w.get("key") for w in (result.get("violations") or [])}]
                result["search_note"] = "escalated thorough-size search: %s evaluations, %d monitor failures" % (
                    r2.get("evaluations"), len(r2.get("violations", [])))
                if not result.get("mismatches"):
                    result["mismatches"] = r2.get("mismatches", [])
            except Exception as ex:
                result["search_note"] = "escalated thorough-size search did not finish (%s); the broken proof obligation / correspondence stands" % repr(ex)[:300]
        return vlib.finish(ctx, proofs, result, level=spec.get("level", "proof"))
    except Exception as ex:  # infrastructure failure is reported, never silently passed
        traceback.print_exc()
        result = {"infra_error": repr(ex), "evaluations": 0, "distinct_nontrivial": 0, "samples": [], "violations": []}
        return vlib.finish(ctx, {"ok": False, "obligations": 0, "discharged": 0, "failed_at": "runner exception"}, result)
