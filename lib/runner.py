import argparse
import json
import os
import sys
import time
import traceback

import vlib
from vlib import Ctx, BuildLock

import props


def setup():
    t0 = time.time()
    with BuildLock():
        ok, msg = vlib.regen()
        print("regen:", ok, msg)
        vlib.sh(["coq_makefile", "-f", "_CoqProject", "-o", "Makefile"], cwd=vlib.COQ, check=True)
        vlib.sh(["make", "clean"], cwd=vlib.COQ, timeout=300)
        rc, o, e = vlib.sh(["make", "-j16"], cwd=vlib.COQ, timeout=3000)
        print((o + e)[-3000:])
        if rc != 0:
            print("setup: coq build failed")
            return 1
        okx, log = vlib.build_extraction()
        if not okx:
            print("setup: extraction build failed\n" + log[-3000:])
            return 1
        for tool in props.HARNESS_TOOLS:
            okb, _, log = vlib.build_tool(tool)
            if not okb:
                print("setup: building %s failed\n%s" % (tool, log[-3000:]))
                return 1
    print("setup done in %.1fs" % (time.time() - t0))
    return 0


def main(argv):
    if argv and argv[0] == "--setup":
        return setup()
    ap = argparse.ArgumentParser()
    ap.add_argument("prop")
    ap.add_argument("--tier", default=os.environ.get("VERIF_TIER", "quick"))
    ap.add_argument("--replay", default=None)
    a = ap.parse_args(argv)
    seed = int(os.environ.get("VERIF_SEED", "1"))
    if a.prop not in props.PROPS:
        print("unknown property", a.prop)
        return 2
    ctx = Ctx(a.prop, a.tier, seed)
    spec = props.PROPS[a.prop]
    if a.replay:
        return spec["replay"](ctx, a.replay)
    try:
        with BuildLock():
            ok, msg = vlib.regen()
            gate = vlib.grep_gate()
            proofs = vlib.build_proofs(a.prop)
            if not ok:
                proofs["ok"] = False
                proofs.setdefault("failed_at", "translator: " + msg[-500:])
        result = spec["run"](ctx, a.tier)
        result["gate"] = gate
        broken = (not proofs.get("ok")) or result.get("mismatches") or gate
        if broken and not result.get("violations") and a.tier == "quick" and spec.get("escalate", True):
            ctx.log("proof or correspondence broke: escalating to a thorough-size failing-input search")
            r2 = spec["run"](ctx, "thorough")
            result["violations"] = r2.get("violations", [])
            result["search_note"] = "escalated thorough-size search: %s evaluations, %d monitor failures" % (
                r2.get("evaluations"), len(r2.get("violations", [])))
            if not result.get("mismatches"):
                result["mismatches"] = r2.get("mismatches", [])
        return vlib.finish(ctx, proofs, result, level=spec.get("level", "proof"))
    except Exception as ex:  # infrastructure failure is reported, never silently passed
        traceback.print_exc()
        result = {"infra_error": repr(ex), "evaluations": 0, "distinct_nontrivial": 0, "samples": [], "violations": []}
        return vlib.finish(ctx, {"ok": False, "obligations": 0, "discharged": 0, "failed_at": "runner exception"}, result)
