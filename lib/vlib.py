"""vlib — shared machinery of the /verif runner (see DESIGN.md 2.1).

Protocol for every property:  regenerate Gen/*.v from /repo -> build proofs (full .vo) ->
build harness from /repo's working tree with -tags verif -> correspondence (model vs code) ->
property monitors on the implementation -> decide -> write evidence.
"""
import fcntl
import hashlib
import json
import os
import re
import subprocess
import sys
import time

ROOT = os.path.dirname(os.path.dirname(os.path.abspath(__file__)))
REPO = os.environ.get("VERIF_REPO", "/repo")
SRC = os.path.join(REPO, "src")
BUILD = os.path.join(ROOT, ".build")
COQ = os.path.join(ROOT, "coq")
HARNESS = os.path.join(ROOT, "harness")
EVID = os.path.join(ROOT, "evidence")
REPLAYS = os.path.join(ROOT, "replays")

GOENV = dict(os.environ)
GOENV.update({"GOFLAGS": "-mod=mod", "GOPROXY": "off", "GOSUMDB": "off", "GOTOOLCHAIN": "local",
              "CGO_ENABLED": os.environ.get("CGO_ENABLED", "0")})

COQ_Q = ["-Q", "Base", "Verif", "-Q", "Gen", "Verif", "-Q", "Model", "Verif", "-Q", "Proofs", "Verif",
         "-Q", "Properties", "Verif", "-Q", "Run", "Verif"]

TRUSTED_BASE = [
    "Coq 8.16.1 kernel (coqc); vm_compute bytecode VM; no native_compute",
    "Coq standard library (ZArith, NArith, List, Bool, Lia/Micromega, Sorting, Permutation)",
    "hand-written model coq/Model/*.v: theorems are about the model, not the Go source",
    "correspondence check (Go harness built from /repo with -tags verif + comparison by coqc vm_compute or extracted OCaml)",
    "translator harness/cmd/extract (constants, walker sites, lock sites -> coq/Gen/*.v)",
    "extraction: Require Extraction + ExtrOcamlBasic only (bool, option, unit, list, prod, sumbool natives); no Extract Constant; OCaml driver glue",
]


class Ctx:
    def __init__(self, prop, tier, seed):
        self.prop, self.tier, self.seed = prop, tier, seed
        self.t0 = time.time()
        self.work = os.path.join(BUILD, "work", prop)
        os.makedirs(self.work, exist_ok=True)
        self.log_lines = []

    def log(self, *a):
        s = " ".join(str(x) for x in a)
        self.log_lines.append(s)
        print("[%s] %s" % (self.prop, s), file=sys.stderr, flush=True)


def sh(cmd, cwd=None, timeout=600, env=None, inp=None, check=False):
    """Run a command under a timeout; returns (rc, stdout, stderr). rc 124 on timeout."""
    try:
        p = subprocess.run(cmd, cwd=cwd, env=env or GOENV, input=inp, capture_output=True, text=True,
                           timeout=timeout, shell=isinstance(cmd, str))
        rc, out, err = p.returncode, p.stdout, p.stderr
    except subprocess.TimeoutExpired as e:
        rc = 124
        out = (e.stdout or b"").decode("utf8", "replace") if isinstance(e.stdout, bytes) else (e.stdout or "")
        err = "TIMEOUT after %ss" % timeout
    if check and rc != 0:
        raise RuntimeError("command failed (%s): %s\n%s\n%s" % (rc, cmd, out[-2000:], err[-2000:]))
    return rc, out, err


class BuildLock:
    """Serialises every step that writes under coq/ or .build/ (checks may run in parallel)."""
    def __enter__(self):
        os.makedirs(BUILD, exist_ok=True)
        self.f = open(os.path.join(BUILD, "lock"), "w")
        fcntl.flock(self.f, fcntl.LOCK_EX)
        return self

    def __exit__(self, *a):
        fcntl.flock(self.f, fcntl.LOCK_UN)
        self.f.close()


def repo_fingerprint():
    """sha256 over /repo/src *.go, go.mod, go.sum (working tree content, not HEAD)."""
    h = hashlib.sha256()
    for dp, dn, fn in sorted(os.walk(SRC)):
        dn.sort()
        for f in sorted(fn):
            if f.endswith(".go") or f in ("go.mod", "go.sum"):
                p = os.path.join(dp, f)
                h.update(p.encode())
                with open(p, "rb") as fh:
                    h.update(fh.read())
    return h.hexdigest()[:16]


# ---------------------------------------------------------------- builds

def build_tool(name, tags="verif", race=False, out=None):
    """go build one harness command from /repo's current working tree."""
    os.makedirs(BUILD, exist_ok=True)
    gosum = os.path.join(SRC, "go.sum")
    if os.path.exists(gosum):
        with open(gosum, "rb") as a:
            data = a.read()
        dst = os.path.join(HARNESS, "go.sum")
        old = open(dst, "rb").read() if os.path.exists(dst) else b""
        # keep a superset: harness may need sums the repo's go.sum lacks (never the case so far)
        if data != old:
            with open(dst, "wb") as b:
                b.write(data)
    sync_gomod()
    out = out or os.path.join(BUILD, name + ("-race" if race else ""))
    cmd = ["go", "build", "-tags", tags]
    env = dict(GOENV)
    if race:
        cmd.append("-race")
        env["CGO_ENABLED"] = "1"
    cmd += ["-o", out, "./cmd/" + name]
    rc, o, e = sh(cmd, cwd=HARNESS, timeout=900, env=env)
    return rc == 0, out, (o + e)


def sync_gomod():
    """harness/go.mod pins exactly the versions of /repo/src/go.mod (offline: nothing may be looked up)."""
    src = open(os.path.join(SRC, "go.mod")).read()
    m = re.search(r"^go\s+(\S+)", src, re.M)
    gover = m.group(1) if m else "1.21"
    reqs = []
    for blk in re.findall(r"require\s*\((.*?)\)", src, re.S):
        for l in blk.strip().splitlines():
            l = l.strip()
            if l and not l.startswith("//"):
                reqs.append(l)
    for l in re.findall(r"^require\s+([^(\s]\S*\s+\S+.*)$", src, re.M):
        reqs.append(l.strip())
    txt = "module verifharness\n\ngo %s\n\nrequire github.com/bartossh/Computantis/src v0.0.0\n\nrequire (\n%s\n)\n\nreplace github.com/bartossh/Computantis/src => %s\n" % (
        gover, "\n".join("\t" + r for r in reqs), SRC)
    dst = os.path.join(HARNESS, "go.mod")
    old = open(dst).read() if os.path.exists(dst) else ""
    if old != txt:
        with open(dst, "w") as f:
            f.write(txt)


def regen():
    """Regenerate coq/Gen/*.v from /repo (translators). Files are rewritten only when they change."""
    ok, tool, log = build_tool("extract", tags="")
    if not ok:
        return False, "building translator failed:\n" + log
    msgs = []
    allok = True
    for mode, outf in (("constants", "RepoConstants.v"), ("walker", "WalkerSites.v"), ("locks", "LockSites.v"), ("codec", "CodecFields.v")):
        target = os.path.join(COQ, "Gen", outf)
        rc, o, e = sh([tool, mode, SRC, target], timeout=120)
        msgs.append(e.strip())
        if rc != 0:
            allok = False
    return allok, "\n".join(m for m in msgs if m)


FORBIDDEN = re.compile(r"\b(Admitted|admit|Axiom|Axioms|Parameter|Parameters|Conjecture|Conjectures|bypass_check)\b|Unset\s+Guard|Unset\s+Positivity|Unset\s+Universe\s+Checking|Admit\s+Obligations|type-in-type|impredicative-set")


def strip_comments(s):
    out, depth, i = [], 0, 0
    while i < len(s):
        if s.startswith("(*", i):
            depth += 1
            i += 2
        elif s.startswith("*)", i) and depth > 0:
            depth -= 1
            i += 2
        else:
            if depth == 0:
                out.append(s[i])
            i += 1
    return "".join(out)


def grep_gate():
    bad = []
    for dp, dn, fn in os.walk(COQ):
        for f in fn:
            if f.endswith(".v") or f == "_CoqProject":
                p = os.path.join(dp, f)
                txt = strip_comments(open(p).read())
                for m in FORBIDDEN.finditer(txt):
                    bad.append("%s: %s" % (os.path.relpath(p, ROOT), m.group(0)))
    return bad


def ensure_makefile():
    mk = os.path.join(COQ, "Makefile")
    cp = os.path.join(COQ, "_CoqProject")
    if not os.path.exists(mk) or os.path.getmtime(mk) < os.path.getmtime(cp):
        sh(["coq_makefile", "-f", "_CoqProject", "-o", "Makefile"], cwd=COQ, check=True)


def build_proofs(prop, timeout=1500):
    """Full .vo build of Properties/<prop>.vo and its dependencies, then re-run coqc on the
    property file to capture Print Assumptions.  Returns dict."""
    res = {"ok": False, "obligations": 0, "discharged": 0, "assumptions": [], "theorems": [], "log": "",
           "checker_cmd": "make -C coq -j16 Properties/%s.vo (coq_makefile, full .vo) && coqc %s Properties/%s.v" % (prop, " ".join(COQ_Q), prop)}
    pf = os.path.join(COQ, "Properties", prop + ".v")
    if not os.path.exists(pf):
        res["log"] = "no property file"
        return res
    src = strip_comments(open(pf).read())
    thms = re.findall(r"\b(?:Theorem|Lemma|Corollary)\s+([A-Za-z0-9_']+)", src)
    res["theorems"] = thms
    res["obligations"] = len(thms)
    ensure_makefile()
    rc, o, e = sh(["make", "-j16", "Properties/%s.vo" % prop], cwd=COQ, timeout=timeout)
    res["log"] = (o + e)[-6000:]
    if rc != 0:
        m = re.search(r'File "\./([^"]+)", line (\d+)', o + e)
        res["failed_at"] = "%s:%s" % (m.group(1), m.group(2)) if m else "unknown"
        return res
    rc, o, e = sh(["coqc"] + COQ_Q + ["Properties/%s.v" % prop], cwd=COQ, timeout=timeout)
    if rc != 0:
        res["log"] = (o + e)[-6000:]
        res["failed_at"] = "Properties/%s.v" % prop
        return res
    # Print Assumptions blocks: either "Closed under the global context" or "Axioms:\n name : type ..."
    blocks = re.split(r"(?=Closed under the global context|Axioms:)", o)
    closed = 0
    axioms = []
    for b in blocks:
        if b.startswith("Closed under the global context"):
            closed += 1
        elif b.startswith("Axioms:"):
            axioms.append(b.strip())
    res["assumptions"] = ["Closed under the global context"] * closed + axioms
    res["axiom_blocks"] = axioms
    res["discharged"] = closed  # theorems depending on any axiom are NOT counted as discharged
    res["ok"] = (closed == len(thms)) and len(thms) > 0
    return res


def run_coq_cases(ctx, name, text, timeout=1200):
    """Compile a generated cases file inside coq/ search path; returns (rc, stdout+stderr)."""
    p = os.path.join(ctx.work, name + ".v")
    with open(p, "w") as f:
        f.write(text)
    rc, o, e = sh(["coqc"] + [x if not x in ("Base", "Gen", "Model", "Proofs", "Properties", "Run") else os.path.join(COQ, x) for x in COQ_Q]
                  + ["-Q", ctx.work, "Cases", p], cwd=ctx.work, timeout=timeout)
    return rc, o + e


def build_extraction(timeout=600):
    d = os.path.join(COQ, "extract")
    q = []
    for x in ("Base", "Gen", "Model"):
        q += ["-Q", os.path.join(COQ, x), "Verif"]
    rc, o, e = sh(["coqc"] + q + ["Extract.v"], cwd=d, timeout=timeout)
    if rc != 0:
        return False, o + e
    rc, o, e = sh("ocamlfind ocamlopt -w -a -o driver model.mli model.ml driver.ml", cwd=d, timeout=timeout)
    return rc == 0, o + e


# ---------------------------------------------------------------- findings / verdict / evidence

def load_known():
    p = os.path.join(ROOT, "known_findings.jsonl")
    out = []
    if os.path.exists(p):
        for l in open(p):
            l = l.strip()
            if l and not l.startswith("#"):
                out.append(json.loads(l))
    return out


def match_known(prop, viol, known):
    """A violation dict has 'key' (structural signature). Known entries with status 'known' and the same
    property+key suppress it; 'fixed' entries suppress nothing."""
    for k in known:
        if k.get("property") == prop and k.get("status") == "known" and k.get("key") == viol.get("key"):
            return k
    return None


def write_replay(ctx, name, obj):
    os.makedirs(REPLAYS, exist_ok=True)
    p = os.path.join(REPLAYS, "%s-%s.json" % (ctx.prop, name))
    with open(p, "w") as f:
        json.dump(obj, f, indent=1, default=str)
    return p


def finish(ctx, proofs, result, level="proof", extra_assumptions=None):
    """Decision protocol + evidence. `result` keys: evaluations, distinct_nontrivial, rule, samples,
    mismatches (list), violations (list of dicts with 'key','what'), extra (dict)."""
    known = load_known()
    new_viol, known_seen = [], []
    for v in result.get("violations", []):
        k = match_known(ctx.prop, v, known)
        if k:
            known_seen.append((k, v))
        else:
            new_viol.append(v)
    lines = []
    seen_keys = set()
    for k, v in known_seen:
        if k["key"] in seen_keys:
            continue
        seen_keys.add(k["key"])
        lines.append("KNOWN-FINDING: property=%s %s" % (ctx.prop, k.get("what", k["key"])))
    rc = 0
    nviol = 0
    if new_viol:
        # group by key: one replay per distinct key (first = minimal as produced by the harness)
        bykey = {}
        for v in new_viol:
            bykey.setdefault(v.get("key", "?"), v)
        for i, (key, v) in enumerate(sorted(bykey.items())):
            p = write_replay(ctx, "viol%d" % i, {"property": ctx.prop, "seed": ctx.seed, "tier": ctx.tier,
                                                 "kind": "failing-input", "violation": v})
            lines.append("VIOLATION property=%s replay=%s" % (ctx.prop, p))
            nviol += 1
        rc = 1
    else:
        broken = []
        if not proofs.get("ok"):
            broken.append({"what": "proof obligation", "failed_at": proofs.get("failed_at"),
                           "theorems": proofs.get("theorems"), "obligations": proofs.get("obligations"),
                           "discharged": proofs.get("discharged"), "log_tail": proofs.get("log", "")[-3000:]})
        if result.get("mismatches"):
            broken.append({"what": "correspondence model-vs-implementation", "first": result["mismatches"][:5],
                           "count": len(result["mismatches"])})
        for g in result.get("gate", []):
            broken.append({"what": "forbidden construct in development", "where": g})
        if result.get("infra_error"):
            broken.append({"what": "harness/infrastructure failure", "detail": result["infra_error"]})
        if broken:
            p = write_replay(ctx, "broken", {"property": ctx.prop, "seed": ctx.seed, "tier": ctx.tier,
                                             "kind": "no-failing-input-found", "broken": broken,
                                             "searched": result.get("search_note", "monitors evaluated on every generated case of this run and of the escalated thorough-size search; none failed")})
            lines.append("VIOLATION property=%s replay=%s no-failing-input-found" % (ctx.prop, p))
            nviol += 1
            rc = 1
    cov = {
        "obligations": max(1, proofs.get("obligations", 0)),
        "discharged": proofs.get("discharged", 0) if proofs.get("discharged", 0) > 0 else 0,
        "checker_cmd": proofs.get("checker_cmd", ""),
        "trusted_base": TRUSTED_BASE + list(result.get("trusted_extra", [])),
        "theorems": proofs.get("theorems", []),
        "assumptions_printed": proofs.get("assumptions", []),
        "evaluations": int(result.get("evaluations", 0)),
        "distinct_nontrivial": int(result.get("distinct_nontrivial", 0)),
        "rule": result.get("rule", ""),
        "samples": result.get("samples", []) or ["(none)"],
        "model_impl_mismatches": len(result.get("mismatches", [])),
        "known_findings_seen": sorted(seen_keys),
        "repo_fingerprint": repo_fingerprint(),
    }
    if cov["discharged"] == 0:
        # schema needs >=1 for a proof-level claim; an undischarged run is reported as violation above,
        # and the evidence says so explicitly instead of pretending.
        cov["discharged_note"] = "0 discharged: proof build failed on this run"
        cov.pop("discharged")
        cov.pop("obligations")
    cov.update(result.get("extra", {}))
    ev = {"property_id": ctx.prop, "tier": ctx.tier, "seed": ctx.seed, "level": level, "coverage": cov,
          "assumptions": (extra_assumptions or []) + result.get("assumptions", []),
          "wall_s": round(time.time() - ctx.t0, 2), "violations": nviol}
    os.makedirs(EVID, exist_ok=True)
    with open(os.path.join(EVID, ctx.prop + ".json"), "w") as f:
        json.dump(ev, f, indent=1, default=str)
    for l in lines:
        print(l, flush=True)
    print("%s tier=%s seed=%s: proofs %s/%s, evaluations=%s, mismatches=%s, known=%d, new violations=%d, %.1fs" % (
        ctx.prop, ctx.tier, ctx.seed, proofs.get("discharged"), proofs.get("obligations"), cov["evaluations"],
        cov["model_impl_mismatches"], len(seen_keys), nviol, time.time() - ctx.t0), flush=True)
    return rc
