#!/usr/bin/env python3
"""Print the DESIGN 10.1 table from coq/Properties/Cxx.v and properties.jsonl."""
import json, os, re
ROOT = os.path.dirname(os.path.dirname(os.path.abspath(__file__)))
print("| id | property | theorems |")
print("|----|----------|----------|")
for l in open(os.path.join(ROOT, "properties.jsonl")):
    p = json.loads(l)
    src = open(os.path.join(ROOT, "coq", "Properties", p["id"] + ".v")).read()
    names = re.findall(r"^(?:Theorem|Lemma|Corollary)\s+([A-Za-z0-9_']+)", src, re.M)
    print("| %s | %s | %s |" % (p["id"], p["title"], ", ".join("`%s`" % n for n in names)))
