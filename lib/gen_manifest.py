#!/usr/bin/env python3
import json, os, sys
sys.path.insert(0, os.path.dirname(os.path.abspath(__file__)))
import registry
ROOT = os.path.dirname(os.path.dirname(os.path.abspath(__file__)))
ids = [json.loads(l)["id"] for l in open(os.path.join(ROOT, "properties.jsonl"))]
checks = []
for pid in ids:
    if pid in registry.CLAIMED:
        c = registry.CLAIMED[pid]
        checks.append({
            "property_id": pid,
            "quick_cmd": "./check %s --tier quick" % pid,
            "thorough_cmd": "./check %s --tier thorough" % pid,
            "evidence_file": "/verif/evidence/%s.json" % pid,
            "replay_cmd_template": "./check %s --replay {path}" % pid,
            "engine": c["engine"],
            "level_claimed": {"category": c.get("category", "proof"), "text": c["text"], "design_ref": "DESIGN.md " + c["design_ref"]},
            "level_note": c["note"],
            "technique": c["technique"],
        })
na = [{"property_id": p, "reason": registry.NOT_YET.get(p, "check not built yet in this session (work in progress; see DESIGN.md 8)")}
      for p in ids if p not in registry.CLAIMED]
hook_commits = getattr(registry, "HOOK_COMMITS", [])
m = {
    "version": 1,
    "setup_cmd": "./check --setup",
    "hooks": {
        "guard": "verif",
        "enable": "go build -tags verif (harness module /verif/harness with replace => /repo/src)",
        "baseline_off_cmd": "cd /repo/src && GOFLAGS=-mod=mod go test -json -vet=off -count=1 -timeout 25m ./...",
        "source_commits": hook_commits,
        "add_only": True,
    },
    "engines": [
        {"name": "coq-development", "path": "/verif/coq", "serves_properties": sorted(registry.CLAIMED), "kind_free_text": "Coq 8.16.1 models, proofs and property theorems (coq_makefile, full .vo)"},
        {"name": "harness", "path": "/verif/harness", "serves_properties": sorted(registry.CLAIMED), "kind_free_text": "Go harness binaries built per run from /repo's working tree (-tags verif) + Go-AST translators (cmd/extract)"},
        {"name": "runner", "path": "/verif/check", "serves_properties": sorted(registry.CLAIMED), "kind_free_text": "python3 orchestration: regen -> proofs -> correspondence -> monitors -> verdict -> evidence"},
    ],
    "checks": checks,
    "not_applicable": na,
    "notes": "Technique: machine-checked proof in Coq 8.16.1 over executable models, tied to /repo by per-run correspondence checks and Go-AST translators. See DESIGN.md.",
}
json.dump(m, open(os.path.join(ROOT, "MANIFEST.json"), "w"), indent=1)
print("MANIFEST.json: %d checks, %d not_applicable" % (len(checks), len(na)))
