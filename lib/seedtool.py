#!/usr/bin/env python3
"""Seeded-change bookkeeping (DESIGN 10.4).
  seedtool.py import  <prop> <agent-out-dir>          copy patch*/demo*/meta* into /verif/seeded/<prop>-<k>/
  seedtool.py confirm <seed-dir> [--full]              scratch worktree: patch applies, builds, suite passes, demo fails on changed / passes on original
  seedtool.py check   <seed-dir> [prop ...]            apply to /repo, run ./check <prop> --tier quick (default: the seed's property), undo
Nothing here is used by the registered checks."""
import json, os, re, shutil, subprocess, sys, time

ROOT = os.path.dirname(os.path.dirname(os.path.abspath(__file__)))
SEEDED = os.path.join(ROOT, "seeded")
ENV = dict(os.environ, GOFLAGS="-mod=mod", GOPROXY="off", GOSUMDB="off", GOTOOLCHAIN="local")


def sh(cmd, cwd=None, timeout=3600):
    p = subprocess.run(cmd, cwd=cwd, env=ENV, stdout=subprocess.PIPE, stderr=subprocess.STDOUT, text=True, errors="replace", timeout=timeout, shell=isinstance(cmd, str))
    return p.returncode, p.stdout


def do_import(prop, out):
    made = []
    for suffix in ("", "2"):
        patch = os.path.join(out, "patch%s.diff" % suffix)
        if not os.path.exists(patch) or os.path.getsize(patch) == 0:
            continue
        k = 1
        while os.path.exists(os.path.join(SEEDED, "%s-%d" % (prop, k))):
            k += 1
        d = os.path.join(SEEDED, "%s-%d" % (prop, k))
        os.makedirs(d)
        shutil.copy(patch, os.path.join(d, "patch.diff"))
        demo = os.path.join(out, "demo%s_test.go" % suffix)
        if os.path.exists(demo):
            shutil.copy(demo, os.path.join(d, "demo_test.go"))
        meta = {}
        mp = os.path.join(out, "meta%s.json" % suffix)
        if os.path.exists(mp):
            try:
                meta = json.load(open(mp))
            except Exception as ex:
                meta = {"raw": open(mp).read()[:4000], "parse_error": str(ex)}
        meta["target_property"] = prop
        meta["origin"] = "independent sub-agent given only the property text and a scratch worktree of /repo"
        json.dump(meta, open(os.path.join(d, "meta.json"), "w"), indent=1)
        made.append(d)
    print("\n".join(made))


def demo_location(d, meta):
    p = meta.get("demo_path") or ""
    if not p:
        head = open(os.path.join(d, "demo_test.go")).read(2000)
        m = re.search(r"(src/[\w/]+/\w+_test\.go)", head)
        p = m.group(1) if m else ""
    return p


def do_confirm(d, full):
    meta = json.load(open(os.path.join(d, "meta.json")))
    wt = "/tmp/confirm-%s-%d" % (os.path.basename(d), os.getpid())
    res = {"when": time.strftime("%Y-%m-%d %H:%M:%S")}
    rc, o = sh(["git", "-C", "/repo", "worktree", "add", "-q", "--detach", wt, "HEAD"])
    try:
        rc, o = sh(["git", "-C", wt, "apply", os.path.join(d, "patch.diff")])
        res["patch_applies"] = rc == 0
        if rc != 0:
            res["error"] = o[-800:]
            return res
        rc, o = sh("go build ./... && go build -tags verif ./...", cwd=os.path.join(wt, "src"))
        res["builds"] = rc == 0
        if rc != 0:
            res["error"] = o[-800:]
            return res
        pkgs = "./..."
        rc, o = sh("go test -vet=off -count=1 -timeout 25m %s 2>&1 | grep -v 'no test files' | tail -30" % pkgs, cwd=os.path.join(wt, "src"))
        res["suite_passes"] = ("FAIL" not in o) and rc == 0
        res["suite_tail"] = o[-1200:]
        demo = demo_location(d, meta)
        if demo and os.path.exists(os.path.join(d, "demo_test.go")):
            dst = os.path.join(wt, demo)
            shutil.copy(os.path.join(d, "demo_test.go"), dst)
            pkg = "./" + os.path.dirname(demo)[len("src/"):]
            race = "-race" in (meta.get("demo_cmd") or "") or "-race" in open(os.path.join(d, "demo_test.go")).read(3000)
            run = "%sgo test %s-vet=off -count=1 -run 'Seeded|seeded|Demo' %s 2>&1 | tail -25" % ("CGO_ENABLED=1 " if race else "", "-race " if race else "", pkg)
            rc, o = sh(run, cwd=os.path.join(wt, "src"))
            res["demo_fails_on_changed"] = ("FAIL" in o) or ("VIOLATION" in o)
            res["demo_changed_tail"] = o[-1000:]
            sh(["git", "-C", wt, "apply", "-R", os.path.join(d, "patch.diff")])
            rc, o = sh(run, cwd=os.path.join(wt, "src"))
            res["demo_passes_on_original"] = ("FAIL" not in o) and ("ok" in o)
            res["demo_original_tail"] = o[-600:]
        else:
            res["demo"] = "no demo location found"
        return res
    finally:
        sh(["git", "-C", "/repo", "worktree", "remove", "--force", wt])
        shutil.rmtree(wt, ignore_errors=True)
        meta["confirmed"] = res
        json.dump(meta, open(os.path.join(d, "meta.json"), "w"), indent=1)
        print(os.path.basename(d), json.dumps({k: v for k, v in res.items() if not k.endswith("tail")}))


def do_check(d, props):
    meta = json.load(open(os.path.join(d, "meta.json")))
    props = props or [meta["target_property"]]
    rc, o = sh(["git", "-C", "/repo", "status", "--porcelain"])
    if o.strip():
        print("refusing: /repo working tree is not clean:\n" + o)
        return 2
    rc, o = sh(["git", "-C", "/repo", "apply", os.path.join(d, "patch.diff")])
    if rc != 0:
        print("patch does not apply to /repo: " + o)
        return 2
    results = meta.setdefault("checks", {})
    try:
        for p in props:
            t0 = time.time()
            rc, o = sh(["./check", p, "--tier", "quick"], cwd=ROOT, timeout=5400)
            lines = [l for l in o.splitlines() if l.startswith("VIOLATION") or l.startswith("KNOWN-FINDING")]
            summary = [l for l in o.splitlines() if re.match(r"C\d\d tier=", l)]
            viol = [l for l in lines if l.startswith("VIOLATION")]
            detail = []
            for l in viol[:3]:
                m = re.search(r"replay=(\S+)", l)
                if m and os.path.exists(m.group(1)):
                    try:
                        r = json.load(open(m.group(1)))
                        v = r.get("violation") or {}
                        detail.append((v.get("key") or r.get("kind") or "")[:120] + ": " + (v.get("what") or r.get("what") or json.dumps(r)[:300])[:300])
                    except Exception:
                        pass
            results[p] = {"exit": rc, "caught": rc == 1 and bool(viol), "violations": len(viol), "no_failing_input": any("no-failing-input-found" in l for l in viol),
                          "summary": summary[-1] if summary else o[-300:], "first": detail, "seconds": round(time.time() - t0)}
            print(os.path.basename(d), p, json.dumps(results[p])[:600])
    finally:
        sh(["git", "-C", "/repo", "checkout", "--", "."])
        json.dump(meta, open(os.path.join(d, "meta.json"), "w"), indent=1)
    return 0


if __name__ == "__main__":
    a = sys.argv[1:]
    if a[0] == "import":
        do_import(a[1], a[2])
    elif a[0] == "confirm":
        do_confirm(os.path.abspath(a[1].rstrip("/")), "--full" in a)
    elif a[0] == "check":
        sys.exit(do_check(os.path.abspath(a[1].rstrip("/")), a[2:]))
