#!/bin/bash
# run every check's thorough tier in the current checkout (used through `vp run -- lib/thorough_all.sh`)
cd "$(dirname "$0")/.."
mkdir -p .build/logs
./check --setup > .build/logs/setup.log 2>&1 || { echo setup failed; tail -20 .build/logs/setup.log; exit 1; }
for p in C05 C04 C20 C19 C17 C15 C16 C08 C18 C11 C12 C01 C02 C03 C06 C07 C09 C10 C13 C14; do
  s=$(date +%s); ./check $p --tier thorough > .build/logs/thorough-$p.log 2>&1; rc=$?
  echo "$p rc=$rc $(( $(date +%s)-s ))s $(grep -v KNOWN .build/logs/thorough-$p.log | tail -1)"
done
