"""Per-property check functions. Each returns a result dict for vlib.finish."""
import json
import os

import vlib
from vlib import sh, BUILD, COQ

HARNESS_TOOLS = ["purefh"]


def _tool(name, **kw):
    with vlib.BuildLock():
        ok, path, log = vlib.build_tool(name, **kw)
    if not ok:
        raise RuntimeError("building harness %s from /repo failed (does /repo compile?):\n%s" % (name, log[-3000:]))
    return path


def _driver():
    d = os.path.join(COQ, "extract", "driver")
    with vlib.BuildLock():
        src_newer = (not os.path.exists(d)) or any(
            os.path.getmtime(os.path.join(COQ, x)) > os.path.getmtime(d)
            for x in ("Model/Spice.v", "Gen/RepoConstants.v", "extract/Extract.v", "extract/driver.ml"))
        if src_newer:
            ok, log = vlib.build_extraction()
            if not ok:
                raise RuntimeError("extraction failed:\n" + log[-3000:])
    return d


# ------------------------------------------------------------------ C05
def run_C05(ctx, tier):
    tool = _tool("purefh")
    drv = _driver()
    summ = os.path.join(ctx.work, "spice_%s.json" % tier)
    cmd = "%s spice -tier %s -seed %d -summary %s | %s" % (tool, tier, ctx.seed, summ, drv)
    rc, out, err = sh(cmd, timeout=3000)
    if rc != 0 or "TOTAL" not in out:
        raise RuntimeError("spice pipeline failed rc=%s\n%s\n%s" % (rc, out[-2000:], err[-2000:]))
    s = json.load(open(summ))
    mism = [l for l in out.splitlines() if l.startswith("MISMATCH")]
    total_line = [l for l in out.splitlines() if l.startswith("TOTAL")][-1].split()
    nm = int(total_line[3])
    if nm and not mism:
        mism = ["%d mismatches" % nm]
    viol = []
    for v in (s.get("violations") or []):
        viol.append({"key": v.get("kind"), "what": "spice %s on %s" % (v.get("kind"), json.dumps(v)), "input": v})
    return {
        "evaluations": s["evaluations"], "distinct_nontrivial": s["distinct_nontrivial"],
        "rule": "exhaustive product of 64-bit boundary values {0,1,2,5e17,1e18-2..1e18+2,2^63-1..2^63+1,2^64-1e18-1..+1,2^64-2,2^64-1} per word "
                "for Supply (17^4) and New (17^2), boundary product for Transfer/Drain (size by tier) + seeded random (90% canonical); "
                "non-trivial = canonical operands whose run takes a carry, borrow, overflow or insufficient-funds branch; "
                "boundary-product cases are distinct by construction",
        "samples": s["samples"], "mismatches": mism, "violations": viol,
        "extra": {"branches_reached": s["branches"], "canonical_cases": s["canonical_cases"],
                  "exhaustive_sets": s["exhaustive_sets"], "exhaustive": False,
                  "comparison": "extracted OCaml model vs Go on every case: error class + all output words"},
        "assumptions": ["model Spice.v corresponds to src/spice/spice.go (checked by this run's differential comparison)"],
    }


def replay_C05(ctx, path):
    r = json.load(open(path))
    print(json.dumps(r, indent=1)[:3000])
    res = run_C05(ctx, "quick")
    bad = res["violations"] or res["mismatches"]
    if bad:
        print("VIOLATION property=C05 replay=%s" % path)
        return 1
    print("replay: property holds on the current tree")
    return 0


PROPS = {
    "C05": {"run": run_C05, "replay": replay_C05},
}
