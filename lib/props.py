"""Per-property check functions. Each returns a result dict for vlib.finish."""
import concurrent.futures
import hashlib
import json
import os
import re
import shutil

import vlib
from vlib import sh, BUILD, COQ

HARNESS_TOOLS = ["purefh", "ledgerh", "gossiph", "rpch", "notaryh", "conch"]


def _tool(name, **kw):
    with vlib.BuildLock():
        ok, path, log = vlib.build_tool(name, **kw)
    if not ok:
        raise RuntimeError("building harness %s from /repo failed (does /repo compile?):\n%s" % (name, log[-3000:]))
    return path


def _driver():
    d = os.path.join(COQ, "extract", "driver")
    with vlib.BuildLock():
        src_newer = (not os.path.exists(d)) or any(
            os.path.getmtime(os.path.join(COQ, x)) > os.path.getmtime(d)
            for x in ("Model/Spice.v", "Model/Handlers.v", "Gen/RepoConstants.v", "extract/Extract.v", "extract/driver.ml"))
        if src_newer:
            ok, log = vlib.build_extraction()
            if not ok:
                raise RuntimeError("extraction failed:\n" + log[-3000:])
    return d


# ------------------------------------------------------------------ C05
def run_C05(ctx, tier):
    tool = _tool("purefh")
    drv = _driver()
    summ = os.path.join(ctx.work, "spice_%s.json" % tier)
    cmd = "%s spice -tier %s -seed %d -summary %s | %s" % (tool, tier, ctx.seed, summ, drv)
    rc, out, err = sh(cmd, timeout=3000)
    if rc != 0 or "TOTAL" not in out:
        raise RuntimeError("spice pipeline failed rc=%s\n%s\n%s" % (rc, out[-2000:], err[-2000:]))
    s = json.load(open(summ))
    mism = [l for l in out.splitlines() if l.startswith("MISMATCH")]
    total_line = [l for l in out.splitlines() if l.startswith("TOTAL")][-1].split()
    nm = int(total_line[3])
    if nm and not mism:
        mism = ["%d mismatches" % nm]
    viol = []
    for v in (s.get("violations") or []):
        viol.append({"key": v.get("kind"), "what": "spice %s on %s" % (v.get("kind"), json.dumps(v)), "input": v})
    # the ledger half of the property (only canonical amounts enter a ledger; its balances stay canonical): the shared ledger run
    lr = ledger_run(ctx, tier)
    ls = lr["summary"]
    for v in (ls.get("violations") or []):
        # value created or destroyed by the ledger accounting built on the arithmetic (founds.go, precalculate.go): the checkpoint of
        # truncation must be the exact net flow of what it moves, and the supply never grows or shrinks
        if v["prop"] == "C05" or v["key"] in ("checkpoint-funds-not-net-flow", "balance-changed-by-truncation", "supply-grew", "supply-shrank"):
            viol.append({"key": v["key"], "what": "%s [ledger trace %s step %s]" % (v["what"][:400], v["trace"], v["step"]), "detail": v})
    ledger_stats = {k: n for k, n in ls["stats"].items() if "canon" in k or k.startswith("res.add.") or k.startswith("res.create.")}
    return {
        "evaluations": s["evaluations"] + ls["steps"], "distinct_nontrivial": s["distinct_nontrivial"],
        "rule": "exhaustive product of 64-bit boundary values {0,1,2,5e17,1e18-2..1e18+2,2^63-1..2^63+1,2^64-1e18-1..+1,2^64-2,2^64-1} per word "
                "for Supply (17^4) and New (17^2), boundary product for Transfer/Drain (size by tier) + seeded random (90% canonical); "
                "non-trivial = canonical operands whose run takes a carry, borrow, overflow or insufficient-funds branch; "
                "boundary-product cases are distinct by construction; plus every step of the shared ledger run (crafted vertices with non-canonical amounts on all entry paths; "
                "monitor: no vertex of any snapshot carries a non-canonical amount)",
        "samples": s["samples"], "mismatches": mism, "violations": viol,
        "extra": {"branches_reached": s["branches"], "canonical_cases": s["canonical_cases"], "ledger_run": {"steps": ls["steps"], "results": ledger_stats, "reused_from_cache": lr.get("cached", False)},
                  "exhaustive_sets": s["exhaustive_sets"], "exhaustive": False,
                  "comparison": "extracted OCaml model vs Go on every case: error class + all output words"},
        "assumptions": ["model Spice.v corresponds to src/spice/spice.go (checked by this run's differential comparison)"],
    }


def replay_C05(ctx, path):
    r = json.load(open(path))
    print(json.dumps(r, indent=1)[:3000])
    res = run_C05(ctx, "quick")
    bad = res["violations"] or res["mismatches"]
    if bad:
        print("VIOLATION property=C05 replay=%s" % path)
        return 1
    print("replay: property holds on the current tree")
    return 0


# ------------------------------------------------------------------ generic: purefh mode + coq cases file with "bad = []"
def run_pure_mode(ctx, tier, mode, rule, comparison, key_prefix="", vo_deps=("Model/WalletFile.vo",)):
    tool = _tool("purefh")
    with vlib.BuildLock():
        for d in vo_deps:
            rc, o, e = sh(["make", "-j16", d], cwd=COQ, timeout=1500)
            if rc != 0:
                return {"evaluations": 0, "distinct_nontrivial": 0, "rule": rule, "samples": [], "violations": [],
                        "mismatches": ["model does not compile: " + (o + e)[-800:]]}
    summ = os.path.join(ctx.work, "%s_%s.json" % (mode, tier))
    cases = os.path.join(ctx.work, "%s_cases_%s.v" % (mode, tier))
    rc, out, err = sh([tool, mode, "-tier", tier, "-seed", str(ctx.seed), "-summary", summ, "-out", cases], timeout=420 if getattr(ctx, "search", False) else 3000, cwd=ctx.work)
    if rc != 0:
        raise RuntimeError("purefh %s failed rc=%s\n%s\n%s" % (mode, rc, out[-2000:], err[-2000:]))
    s = json.load(open(summ))
    q = []
    for x in ("Base", "Gen", "Model", "Run"):
        q += ["-Q", os.path.join(COQ, x), "Verif"]
    rc, o, e = sh(["coqc"] + q + [cases], cwd=ctx.work, timeout=2400)
    txt = o + e
    m = re.search(r"bad\s*=\s*(\[.*?\])\s*:\s*list", txt, re.S)
    mism = []
    if rc != 0 or not m:
        mism.append("coq evaluation of the cases failed: " + txt[-800:])
    elif m.group(1).strip() != "[]":
        mism.append("model and implementation disagree on: " + m.group(1)[:1500])
    viol = [{"key": key_prefix + v.get("kind", "?"), "what": json.dumps(v)[:500], "input": v} for v in (s.get("violations") or [])]
    return {"evaluations": s["evaluations"], "distinct_nontrivial": s.get("distinct_nontrivial", 0), "rule": rule,
            "samples": (s.get("samples") or []), "mismatches": mism, "violations": viol,
            "extra": {"branches_reached": s.get("kinds", {}), "exhaustive_note": s.get("exhaustive", ""), "comparison": comparison}}


def make_pure_check(prop, mode, rule, comparison, assumptions, vo_deps):
    def run(ctx, tier):
        r = run_pure_mode(ctx, tier, mode, rule, comparison, vo_deps=vo_deps)
        r["assumptions"] = assumptions
        return r

    def replay(ctx, path):
        r = json.load(open(path))
        print(json.dumps(r, indent=1)[:3000])
        res = run(ctx, r.get("tier", "quick"))
        if res["violations"] or res["mismatches"]:
            print("VIOLATION property=%s replay=%s" % (prop, path))
            return 1
        print("replay: property holds on the current tree")
        return 0
    return {"run": run, "replay": replay}


# ------------------------------------------------------------------ ledger properties (shared harness run)


def _dir_hash(paths):
    h = hashlib.sha256()
    for base in paths:
        if os.path.isfile(base):
            h.update(open(base, "rb").read())
            continue
        for dp, dn, fn in sorted(os.walk(base)):
            dn.sort()
            for f in sorted(fn):
                if f.endswith((".go", ".v", ".mod")):
                    h.update(f.encode())
                    h.update(open(os.path.join(dp, f), "rb").read())
    return h.hexdigest()[:12]


LEDGER_ATTR = {  # op kind of the first unaccepted step -> properties whose model part is then untied
    "balance": ["C06"], "truncate": ["C07"], "load": ["C14"], "retry": ["C13", "C03"],
    "read": ["C07", "C03"], "readtrx": ["C07", "C03"],
}
LEDGER_ALL = ["C01", "C02", "C03", "C09", "C10", "C13"]


def ledger_run(ctx, tier):
    """Run (or reuse) the shared ledger harness + acceptor for this /repo content, seed and tier."""
    key = "%s-%s-%s-%d" % (vlib.repo_fingerprint(), _dir_hash([os.path.join(vlib.HARNESS, "cmd", "ledgerh"),
                           os.path.join(COQ, "Model"), os.path.join(COQ, "Run"), os.path.join(COQ, "Gen")]), tier, ctx.seed)
    cdir = os.path.join(BUILD, "cache", "ledger", key)
    os.makedirs(cdir, exist_ok=True)
    import fcntl
    with open(os.path.join(cdir, ".lock"), "w") as lk:
        fcntl.flock(lk, fcntl.LOCK_EX)
        res = os.path.join(cdir, "result.json")
        if os.path.exists(res):
            r = json.load(open(res))
            r["cached"] = True
            return r
        tool = _tool("ledgerh")
        with vlib.BuildLock():
            rc, o, e = sh(["make", "-j16", "Run/CheckLedger.vo"], cwd=COQ, timeout=1500)
        model_ok = rc == 0
        rc, out, err = sh([tool, "-tier", tier, "-seed", str(ctx.seed), "-out", cdir], timeout=3000, cwd=cdir)
        if rc != 0:
            raise RuntimeError("ledgerh failed rc=%s: %s %s" % (rc, out[-2000:], err[-2000:]))
        summ = json.load(open(os.path.join(cdir, "summary.json")))
        mism = []
        if not model_ok:
            mism.append({"shard": "-", "trace": -1, "step": -1, "op": "model does not compile: " + (o + e)[-800:], "kind": "all"})
        else:
            q = []
            for x in ("Base", "Gen", "Model", "Run"):
                q += ["-Q", os.path.join(COQ, x), "Verif"]

            def one(sh_name):
                # in an escalated failing-input search the monitors of the Go harness decide; the acceptors are bounded there
                # (on a changed tree whose behaviour left the model they can need minutes and gigabytes per shard)
                rc, o, e = sh(["coqc"] + q + [sh_name], cwd=cdir, timeout=240 if getattr(ctx, "search", False) else 2400)
                return sh_name, rc, o + e
            with concurrent.futures.ThreadPoolExecutor(max_workers=14) as ex:
                for sh_name, rc, txt in ex.map(one, summ["shards"]):
                    m = re.search(r"M\s*=\s*(\[.*?\])\s*:\s*list", txt, re.S)
                    if rc != 0 or not m:
                        mism.append({"shard": sh_name, "trace": -1, "step": -1, "op": "acceptor did not evaluate: " + txt[-600:], "kind": "all"})
                        continue
                    for t, k in re.findall(r"\((\d+)%nat,\s*(\d+)%nat\)", m.group(1)):
                        ops = summ["shard_ops"][sh_name][int(t)]
                        op = ops[int(k)] if int(k) < len(ops) else "?"
                        mism.append({"shard": sh_name, "trace": int(t), "step": int(k), "op": op, "kind": op.split(" ")[0],
                                     "prefix": ops[:int(k) + 1][-12:]})
        for f in os.listdir(cdir):
            if f.endswith((".vo", ".vok", ".vos", ".glob")) or f.startswith(".cases"):
                os.remove(os.path.join(cdir, f))
        r = {"summary": {k: v for k, v in summ.items() if k != "shard_ops"}, "mismatches": mism, "dir": cdir}
        json.dump(r, open(res, "w"))
        # keep the cache small: drop older entries
        root = os.path.dirname(cdir)
        ents = sorted((os.path.getmtime(os.path.join(root, d)), d) for d in os.listdir(root))
        for _, d in ents[:-6]:
            shutil.rmtree(os.path.join(root, d), ignore_errors=True)
        r["cached"] = False
        return r


LEDGER_RULE = ("scenario kinds: random (below), truncate (>=1010-vertex chains and braids built on one real ledger, model state injected from the snapshot, "
               "synchronous truncate under a watchdog, balances / by-hash reads / re-submissions / follow-up transfers before vs after), perm (a fixed valid 6-vertex history "
               "delivered in seeded permutations with duplicates, interleaved proposals and retries, final ledger vs parents-first), load (real StreamDAG -> real LoadDag on a fresh "
               "node, 5 stream corruptions, follow-up gossip on both), repropose (an overdrawing transfer sealed in a tentative tip, dropped through a peer's vertex that names it as parent, proposed again). random: seeded histories on 1-3 real AccountingBook instances (proposals, gossip deliveries in any order, crafted vertices with arbitrary "
               "parents/weights/sealers/corruptions, replays, retries, trusted-set edits, cancellation after k polls, balance queries, LoadDag of the "
               "real stream); every step compared with the Coq model (result class + full snapshot projection); non-trivial = the history has at "
               "least one admitted and one rejected operation and a vertex with two distinct parents; distinct = different operation logs")


def make_ledger_check(prop, stat_prefixes):
    def run(ctx, tier):
        r = ledger_run(ctx, tier)
        s = r["summary"]
        viol = [{"key": v["key"], "what": "%s [trace %s step %s]" % (v["what"][:400], v["trace"], v["step"]), "detail": v}
                for v in (s.get("violations") or []) if v["prop"] == prop or v["prop"] == "HARNESS"]
        mism = []
        for m in r["mismatches"]:
            props_hit = LEDGER_ATTR.get(m["kind"], LEDGER_ALL if m["kind"] != "all" else None)
            if props_hit is None or prop in props_hit:
                mism.append(m)
        stats = {k: v for k, v in s["stats"].items() if any(k.startswith(p) for p in stat_prefixes)}
        return {
            "evaluations": s["steps"], "distinct_nontrivial": s["distinct_nontrivial"], "rule": LEDGER_RULE,
            "samples": s["samples"][:2], "mismatches": mism, "violations": viol,
            "extra": {"scenarios": s["scenarios"], "traces": s["traces"], "scenarios_by_kind": s.get("scenarios_by_kind"),
                      "branches_reached": stats, "harness_result_reused_from_cache": r.get("cached", False),
                      "comparison": "coqc vm_compute: CheckLedger.mismatches over every trace (acceptor searches tip orders / tips)"},
            "assumptions": ["the locked region of every ledger entry point is atomic (premise discharged by C18's lock discipline + race matrix)",
                            "Vertex.verify outcome is an input of the ledger model (its correctness is C04)"],
        }

    def replay(ctx, path):
        r = json.load(open(path))
        print(json.dumps(r, indent=1)[:4000])
        res = run(ctx, r.get("tier", "quick"))
        keys = {v["key"] for v in res["violations"]}
        want = (r.get("violation") or {}).get("key")
        if (want and want in keys) or (not want and (res["mismatches"])):
            print("VIOLATION property=%s replay=%s" % (prop, path))
            return 1
        print("replay: not reproduced on the current tree (seed %s)" % ctx.seed)
        return 0
    return {"run": run, "replay": replay}


# ------------------------------------------------------------------ gossip properties (shared virtual-network run)
def gossip_run(ctx, tier):
    key = "%s-%s-%s-%d" % (vlib.repo_fingerprint(), _dir_hash([os.path.join(vlib.HARNESS, "cmd", "gossiph"),
                           os.path.join(COQ, "Model", "Gossip.v"), os.path.join(COQ, "Run", "CheckGossip.v")]), tier, ctx.seed)
    cdir = os.path.join(BUILD, "cache", "gossip", key)
    os.makedirs(cdir, exist_ok=True)
    import fcntl
    with open(os.path.join(cdir, ".lock"), "w") as lk:
        fcntl.flock(lk, fcntl.LOCK_EX)
        res = os.path.join(cdir, "result.json")
        if os.path.exists(res):
            return json.load(open(res))
        tool = _tool("gossiph")
        with vlib.BuildLock():
            rc, o, e = sh(["make", "-j16", "Run/CheckGossip.vo"], cwd=COQ, timeout=1500)
        mism = []
        if rc != 0:
            mism.append("model does not compile: " + (o + e)[-800:])
        summ, cases = os.path.join(cdir, "summary.json"), os.path.join(cdir, "gcases.v")
        rc, out, err = sh([tool, "-tier", tier, "-seed", str(ctx.seed), "-summary", summ, "-out", cases], timeout=3000, cwd=ctx.work)
        if rc != 0:
            raise RuntimeError("gossiph failed rc=%s %s %s" % (rc, out[-1500:], err[-1500:]))
        s = json.load(open(summ))
        if not mism:
            q = []
            for x in ("Base", "Gen", "Model", "Run"):
                q += ["-Q", os.path.join(COQ, x), "Verif"]
            rc, o, e = sh(["coqc"] + q + [cases], cwd=cdir, timeout=2400)
            m = re.search(r"bad\s*=\s*(\[.*?\])\s*:\s*list", o + e, re.S)
            if rc != 0 or not m:
                mism.append("coq evaluation failed: " + (o + e)[-800:])
            elif m.group(1).strip() != "[]":
                mism.append("model and implementation disagree on traces (trace, step): " + " ".join(m.group(1).split())[:800])
        r = {"summary": s, "mismatches": mism}
        json.dump(r, open(res, "w"))
        root = os.path.dirname(cdir)
        ents = sorted((os.path.getmtime(os.path.join(root, d)), d) for d in os.listdir(root))
        for _, d in ents[:-6]:
            shutil.rmtree(os.path.join(root, d), ignore_errors=True)
        return r


GOSSIP_RULE = ("virtual networks of 2-8 REAL gossiper objects (random connected topologies, every origin) over real ledgers, caches and flash memories; the harness delivers the "
               "in-flight GossipVrx / GossipTrx messages in seeded random order, duplicates 1 in 5, appends forged gossiper entries (unsigned / signed for another item / signed by "
               "another key) to 1 in 3, and in 'poison' scenarios lets a Byzantine relay hand a corrupted copy to its victim first; non-trivial = >= 3 nodes and >= 2 deliveries; distinct traces")


def make_gossip_check(prop):
    def run(ctx, tier):
        r = gossip_run(ctx, tier)
        s = r["summary"]
        viol = [{"key": v["key"], "what": v["what"][:400]} for v in (s.get("violations") or []) if v["prop"] in (prop, "HARNESS")]
        return {"evaluations": s["evaluations"], "distinct_nontrivial": s["distinct_nontrivial"], "rule": GOSSIP_RULE,
                "samples": (s.get("samples") or [])[:2], "mismatches": r["mismatches"], "violations": viol,
                "extra": {"branches_reached": s.get("kinds", {}),
                          "comparison": "every delivery: admitted? and the set of forward destinations vs Gossip.handle; final admitted set and empty queue (CheckGossip.gmismatches, coqc vm_compute)"},
                "assumptions": ["one item whose acceptance does not depend on delivery order (parents are everywhere); cross-item reordering is C13",
                                "flash expiry (20 s window) is not exercised; duplicates arrive within the window"]}

    def replay(ctx, path):
        r = json.load(open(path))
        print(json.dumps(r, indent=1)[:3000])
        res = run(ctx, r.get("tier", "quick"))
        want = (r.get("violation") or {}).get("key")
        if (want and want in {v["key"] for v in res["violations"]}) or (not want and res["mismatches"]):
            print("VIOLATION property=%s replay=%s" % (prop, path))
            return 1
        print("replay: not reproduced on the current tree")
        return 0
    return {"run": run, "replay": replay}


# ------------------------------------------------------------------ C15: handlers (exhaustive shape classes, extracted model)
def run_C15(ctx, tier):
    tool = _tool("rpch")
    with vlib.BuildLock():
        rc, o, e = sh(["make", "-j16", "Model/Handlers.vo"], cwd=COQ, timeout=1500)
        okx, xlog = (False, o + e) if rc != 0 else vlib.build_extraction()
    mism = []
    summ, cases = os.path.join(ctx.work, "rpc_%s.json" % tier), os.path.join(ctx.work, "rpc_cases_%s.txt" % tier)
    rc, out, err = sh([tool, "-tier", tier, "-seed", str(ctx.seed), "-summary", summ, "-out", cases], timeout=3000, cwd=ctx.work)
    if rc != 0:
        raise RuntimeError("rpch failed rc=%s %s %s" % (rc, out[-1500:], err[-1500:]))
    s = json.load(open(summ))
    if not okx:
        mism.append("model/extraction does not build: " + xlog[-800:])
    else:
        rc, out, err = sh("%s < %s" % (os.path.join(COQ, "extract", "driver"), cases), timeout=1800)
        tl = [l for l in out.splitlines() if l.startswith("TOTAL")]
        if rc != 0 or not tl:
            mism.append("driver failed: " + (out + err)[-800:])
        elif int(tl[-1].split()[3]) != 0:
            mism += [l for l in out.splitlines() if l.startswith("MISMATCH")][:10] or ["%s" % tl[-1]]
    os.remove(cases)
    viol = [{"key": v["key"], "what": v["what"][:500]} for v in (s.get("violations") or [])]
    return {"evaluations": s["evaluations"], "distinct_nontrivial": s["distinct_nontrivial"],
            "rule": "EXHAUSTIVE product, per handler, of length classes per bytes/string field ({0,1,31,32,33,100} for hashes and digests, {0,31,32} for secondary hashes, "
                    "empty/non-empty for text, 0/5/1100 for data), present/absent per sub-message and success/failure per dependency (programmable stubs), on the REAL handler code "
                    "under recover(); non-trivial = cases that end in an error or a panic (each case is distinct by construction)",
            "samples": (s.get("samples") or []), "mismatches": mism, "violations": viol,
            "extra": {"branches_reached": s.get("kinds", {}), "exhaustive": True,
                      "comparison": "outcome class (response/error/panic) and the sorted list of mutating dependency calls vs Handlers.run, on EVERY case, by the extracted OCaml model"},
            "assumptions": ["gRPC delivers non-nil top-level messages and non-nil elements of repeated message fields (protobuf decoding)",
                            "dependencies are abstracted to ok/fail outcomes; their own panics are out of scope here (ledger: C09/C01 traces; verifier: C04)"]}


def replay_C15(ctx, path):
    r = json.load(open(path))
    print(json.dumps(r, indent=1)[:3000])
    res = run_C15(ctx, "quick")
    want = (r.get("violation") or {}).get("key")
    if (want and want in {v["key"] for v in res["violations"]}) or (not want and res["mismatches"]):
        print("VIOLATION property=C15 replay=%s" % path)
        return 1
    print("replay: not reproduced on the current tree")
    return 0


# ------------------------------------------------------------------ C16: notary call sequences
def run_C16(ctx, tier):
    tool = _tool("notaryh")
    with vlib.BuildLock():
        rc, o, e = sh(["make", "-j16", "Run/CheckNotary.vo"], cwd=COQ, timeout=1500)
    mism = []
    if rc != 0:
        mism.append("model does not compile: " + (o + e)[-800:])
    summ, cases = os.path.join(ctx.work, "notary_%s.json" % tier), os.path.join(ctx.work, "ncases_%s.v" % tier)
    rc, out, err = sh([tool, "-tier", tier, "-seed", str(ctx.seed), "-summary", summ, "-out", cases], timeout=3000, cwd=ctx.work)
    if rc != 0:
        raise RuntimeError("notaryh failed rc=%s %s %s" % (rc, out[-1500:], err[-1500:]))
    s = json.load(open(summ))
    if not mism:
        q = []
        for x in ("Base", "Gen", "Model", "Run"):
            q += ["-Q", os.path.join(COQ, x), "Verif"]
        rc, o, e = sh(["coqc"] + q + [cases], cwd=ctx.work, timeout=2400)
        m = re.search(r"bad\s*=\s*(\[.*?\])\s*:\s*list", o + e, re.S)
        if rc != 0 or not m:
            mism.append("coq evaluation failed: " + (o + e)[-800:])
        elif m.group(1).strip() != "[]":
            mism.append("model and implementation disagree on (sequence, call): " + " ".join(m.group(1).split())[:800])
    viol = [{"key": v["key"], "what": v["what"][:500]} for v in (s.get("violations") or [])]
    return {"evaluations": s["evaluations"], "distinct_nontrivial": s["distinct_nontrivial"],
            "rule": "seeded sequences of 14-27 calls on the REAL notary server object over a real awaiting cache, challenge store (1 s longevity), flash memory and ledger: proposals of contracts and "
                    "pure transfers (honest / corrupted issuer signature), confirmations (valid receiver signature / signed by another wallet / stripped), rejections (receiver / issuer / outsider / "
                    "corrupted signature), challenges, waiting-list reads (own key / wrong key / foreign challenge / after expiry), balance reads (own / foreign key, foreign address), replays; "
                    "non-trivial = distinct sequences with at least one confirm or reject",
            "samples": (s.get("samples") or [])[:2], "mismatches": mism, "violations": viol,
            "extra": {"branches_reached": s.get("kinds", {}),
                      "comparison": "response class, returned waiting list, per-address awaiting listings and the sealed set after EVERY call vs Notary.nstep (CheckNotary.nmismatches, coqc vm_compute)"},
            "assumptions": ["H-sig: a signature that verifies under an address's key was made by its owner",
                            "whether the ledger accepts a leaf is an oracle input of the notary model (decided by the ledger model, C01/C03)",
                            "an address with nothing awaiting: 'empty list' and the cache's 'not found' error are identified"]}


def replay_C16(ctx, path):
    r = json.load(open(path))
    print(json.dumps(r, indent=1)[:3000])
    res = run_C16(ctx, "quick")
    want = (r.get("violation") or {}).get("key")
    if (want and want in {v["key"] for v in res["violations"]}) or (not want and res["mismatches"]):
        print("VIOLATION property=C16 replay=%s" % path)
        return 1
    print("replay: not reproduced on the current tree")
    return 0


# ------------------------------------------------------------------ C08
def run_C08(ctx, tier):
    tool = _tool("conch")
    summ = os.path.join(ctx.work, "wedge_%s.json" % tier)
    rc, out, err = sh([tool, "wedge", "-tier", tier, "-seed", str(ctx.seed), "-summary", summ], timeout=900, cwd=ctx.work)
    if rc != 0 or not os.path.exists(summ):
        raise RuntimeError("conch wedge failed rc=%s %s %s" % (rc, out[-1500:], err[-1500:]))
    s = json.load(open(summ))
    sites = open(os.path.join(COQ, "Gen", "WalkerSites.v")).read()
    nsites, nwriters = len(re.findall(r"^\s*WSite ", sites, re.M)), len(re.findall(r"^\s*GWriter ", sites, re.M))
    viol = [{"key": v["key"], "what": v["what"][:500]} for v in (s.get("violations") or [])]
    return {"evaluations": s["evaluations"], "distinct_nontrivial": s["distinct_nontrivial"],
            "rule": "on real AccountingBook instances: each of propose / gossip-add / tip validation / balance / history with a counting context that reports cancellation at its k-th poll, "
                    "k = 0..n+2 over an n-vertex history; synchronous truncation of 1000+ vertex histories (first internal walk exits early at the cut) and truncation cancelled at poll "
                    "0,1,500,999,1000,1001; DAG streaming to a slow consumer while 30 proposals arrive, and to a consumer that goes away; after EVERY scenario a probe proposal must return within 5 s "
                    "and the goroutine profile must show no goroutine parked in dag.walkAncestors; non-trivial = scenarios in which the operation was actually cut short or ran concurrently",
            "samples": (s.get("samples") or [])[:2], "mismatches": [], "violations": viol,
            "extra": {"branches_reached": s.get("kinds", {}), "walker_sites_translated": nsites, "graph_write_sites_translated": nwriters,
                      "comparison": "the model's inputs (Gen/WalkerSites.v: drain discipline, signal-channel uses, error checks, ledger lock held at every walk and graph write) are regenerated from "
                                    "src/accountant by the Go-AST translator on every run and C08_tree_discipline is re-proved over them; the dynamic sweep checks the protocol's observable consequence on the real code"},
            "assumptions": ["heimdalr/dag AncestorsWalker behaves as Model/Walker.v says (read lock held for the whole walk, unbuffered id channel, signal polled between sends) - library code, pinned v1.3.1",
                            "sync.RWMutex blocks new readers while a writer waits (Model/StreamLock.v)",
                            "translator is syntactic (go/ast): locks are Lock();defer Unlock() pairs at the top of a function or goroutine literal; unexported methods inherit the locks held at all call sites",
                            "operations other than walks terminate (badger calls, signature checks) - not modelled"]}


def replay_C08(ctx, path):
    r = json.load(open(path))
    print(json.dumps(r, indent=1)[:3000])
    res = run_C08(ctx, "quick")
    want = (r.get("violation") or {}).get("key")
    if (want and want in {v["key"] for v in res["violations"]}) or (not want and res["violations"]):
        print("VIOLATION property=C08 replay=%s" % path)
        return 1
    print("replay: not reproduced on the current tree")
    return 0


# ------------------------------------------------------------------ C18
_RACE_ACC = re.compile(r"^(?:Write|Read|Previous write|Previous read) at \S+ by [^\n]*:\n((?:  \S[^\n]*\n\s+\S+[^\n]*\n)+)", re.M)


def _race_reports(logdir):
    """Parse GORACE log files: one entry per report whose BOTH accesses pass through non-hook code of /repo/src."""
    out, total = {}, 0
    for f in sorted(os.listdir(logdir)):
        if not f.startswith("r."):
            continue
        txt = open(os.path.join(logdir, f), errors="replace").read()
        for blk in txt.split("=================="):
            if "WARNING: DATA RACE" not in blk:
                continue
            total += 1
            sides = []
            for m in _RACE_ACC.finditer(blk):
                frames = re.findall(r"  (\S+)\n\s+(\S+?):(\d+)", m.group(1))
                mine = [(fn, fl, ln) for fn, fl, ln in frames if fl.startswith("/repo/src/") and "verif_hooks" not in fl]
                hooktop = bool(frames) and "verif_hooks" in frames[0][1]
                if mine and not hooktop:
                    fn = mine[0][0].split("/")[-1].rstrip("()").replace("(*", "").replace(")", "")
                    sides.append((fn, "%s:%s" % (mine[0][1].replace("/repo/src/", ""), mine[0][2])))
            if len(sides) >= 2:
                key = "race:" + "|".join(sorted({sides[0][0], sides[1][0]}))
                out.setdefault(key, "the Go race detector reports unsynchronised accesses at %s (%s) and %s (%s)" % (sides[0][1], sides[0][0], sides[1][1], sides[1][0]))
    return out, total


def run_C18(ctx, tier):
    tool = _tool("conch", race=True)
    logdir = os.path.join(ctx.work, "race_%s" % tier)
    shutil.rmtree(logdir, ignore_errors=True)
    os.makedirs(logdir)
    summ = os.path.join(logdir, "sum.json")
    env = dict(os.environ)
    env["GORACE"] = "log_path=%s/r halt_on_error=0 history_size=4" % logdir
    rc, out, err = sh([tool, "race", "-tier", tier, "-seed", str(ctx.seed), "-summary", summ], timeout=3000, cwd=logdir, env=env)
    if not os.path.exists(summ):
        raise RuntimeError("conch race failed rc=%s %s %s" % (rc, out[-1500:], err[-1500:]))
    s = json.load(open(summ))
    reports, total = _race_reports(logdir)
    viol = [{"key": k, "what": w} for k, w in sorted(reports.items())]
    if rc != 0 and not viol:
        viol.append({"key": "race-workload-crashed", "what": "the concurrent workload aborted (rc=%s): %s" % (rc, (out + err)[-400:])})
    table = open(os.path.join(COQ, "Gen", "LockSites.v")).read()
    return {"evaluations": s["evaluations"], "distinct_nontrivial": s["distinct_nontrivial"],
            "rule": "binary built with -race from /repo: on one loaded node every unordered pair of {propose, gossip-add, park (unknown parent), retry, balance, history, by-hash reads, DAG stream, loaded?, "
                    "trusted-node update} runs in two goroutines (6 iterations each), then 8 goroutines run 20 random operations each; parked vertices against the REAL 2 s retry ticker; truncation of a 1010-vertex "
                    "history concurrently with balance reads and proposals; on a gossip node every pair of {announce, discover, fetch-missing-parent, gossiped vertex with unknown parent}; the race detector's "
                    "reports (GORACE log) are the oracle; reports whose racing frame is verification-hook code are ignored; non-trivial = distinct operation pairs",
            "samples": (s.get("samples") or [])[:2], "mismatches": [], "violations": viol,
            "extra": {"branches_reached": s.get("kinds", {}), "race_reports_total": total,
                      "accesses_translated": len(re.findall(r"^\s*Acc ", table, re.M)), "roots_translated": len(re.findall(r"^\s*Root ", table, re.M)),
                      "comparison": "static: Gen/LockSites.v regenerated from the source and C18_lockset_discipline re-proved on every run; dynamic: Go race detector over the pair matrix on the real code"},
            "assumptions": ["only fields of structs that own a mutex (AccountingBook, buffer, gossiper, Hippocampus, ...) in src/accountant, src/cache, src/gossip are in the table; local variables captured by goroutines, "
                            "slice/map element aliasing and library internals (badger, bigcache, heimdalr/dag, grpc) are covered only by the dynamic race run",
                            "CreateGenesis/LoadDag (load phase) and constructors are excluded from concurrency, as the property speaks about a loaded node",
                            "sync.Mutex/RWMutex behave as Model/Lockset.v's lstep; the race detector's happens-before is not modelled - mutual exclusion by a common lock implies it",
                            "the translator is syntactic (see C08)"]}


def replay_C18(ctx, path):
    r = json.load(open(path))
    print(json.dumps(r, indent=1)[:3000])
    res = run_C18(ctx, "quick")
    want = (r.get("violation") or {}).get("key")
    if (want and want in {v["key"] for v in res["violations"]}) or (not want and res["violations"]):
        print("VIOLATION property=C18 replay=%s" % path)
        return 1
    print("replay: not reproduced on the current tree")
    return 0


PROPS = {
    "C18": {"run": run_C18, "replay": replay_C18, "level": "proof"},
    "C08": {"run": run_C08, "replay": replay_C08},
    "C05": {"run": run_C05, "replay": replay_C05},
    "C01": make_ledger_check("C01", ["c01.", "res.", "op."]),
    "C02": make_ledger_check("C02", ["c02.", "op."]),
    "C03": make_ledger_check("C03", ["res.", "op."]),
    "C06": make_ledger_check("C06", ["c06.", "op.balance"]),
    "C09": make_ledger_check("C09", ["res.", "op."]),
    "C10": make_ledger_check("C10", ["res.", "op."]),
    "C07": make_ledger_check("C07", ["trunc.", "op.truncate", "op.create.quiet", "op.add.quiet"]),
    "C13": make_ledger_check("C13", ["perm.", "res.retry", "res.add.RParentMissing", "op.retry"]),
    "C14": make_ledger_check("C14", ["load.", "res.load", "op.load"]),
    "C11": make_gossip_check("C11"),
    "C12": make_gossip_check("C12"),
    "C15": {"run": run_C15, "replay": replay_C15},
    "C16": {"run": run_C16, "replay": replay_C16},
    "C20": make_pure_check("C20", "wallet",
        "real SaveWallet/ReadWallet (+PEM) over seeded wallets x {16,32}-byte keys: the round trip, EVERY truncation length 0..len-1, EVERY byte position x k xor-values, "
        "one extra byte, wrong keys of sizes {same, other valid, 0,1,15,17,24,31,33,64} and one flipped key bit; non-trivial = every non-round-trip case (each is a distinct file/key)",
        "outcome class (wallet / error / panic under recover) vs the model's decision list read_class, evaluated by coqc vm_compute",
        ["H-aead: AES-GCM opens only what was sealed under the same key and nonce (premise of C20_altered_file_is_error / C20_wrong_key_is_error)",
         "H-gob / H-pem: encoding/gob and x509+pem round-trip the wallet struct (premise of C20_roundtrip)"],
        ("Model/WalletFile.vo",)),
    "C04": make_pure_check("C04", "tamper",
        "real wallets sign real vertices (with/without data, with/without receiver countersignature); every mutation class of the property is applied: bit flips in every vertex and "
        "transaction field, truncation/extension of byte fields and signatures, moving bytes across each adjacent boundary of the unframed transaction message, swapping fields between two "
        "valid vertices, addresses/signatures of another wallet, receiver-signature stripping/replacement, well-checksummed addresses of keys of length 0/1/31/33/64; each mutant goes through "
        "Vertex.verify and through AddLeaf on a real ledger (snapshot before/after); non-trivial = every mutant (distinct by construction)",
        "Vertex.verify outcome vs the model's decision list verify_dec over independently established facts (own sha256/ed25519/base58 re-implementation); GetMessage / initData byte-exact vs trx_msg / vtx_msg (coqc vm_compute)",
        ["H-sha: sha256 collision-free; H-sig: ed25519 signatures verify only under the signing key on signed digests (premises of C04_vertex_fields_pinned / C04_trx_fields_pinned_partial)",
         "H-b58: base58 + 4-byte double-sha checksum decoding as implemented by mr-tron/base58 (re-implemented independently in the harness)"],
        ("Model/Msg.vo",)),
    "C19": make_pure_check("C19", "codec",
        "vertices/transactions over boundary values per field (lengths 0,1,31,32,33,255,256,65535,65536; integers at 2^7,2^8,2^16,2^32,2^63,2^64 boundaries; timestamps at the epoch, 2^32 s, "
        "2^34 s, negative, int64-nanosecond limits; UTF-8 and raw bytes), each dimension swept around a base point + seeded random combinations + one genuinely signed vertex; real mapping "
        "functions + real proto.Marshal/Unmarshal, real msgpack encode (vmihailenco) / decode (shamaton) for Vertex, Transaction, Melange, Balance; non-trivial = every round trip executed",
        "field-wise equality of all signed fields, signed messages and verification result (monitor); model to_proto/of_proto on every case; enc_u64/enc_time/dec_* and the WHOLE msgpack form of "
        "every generated Vertex and Transaction (enc_vtx / enc_trx: map header, keys, str/bin/ext framing) BYTE-EXACT against msgpack.Marshal output, and dec_vtx / dec_trx of the real bytes give back the "
        "generated value (coqc vm_compute; bodies above 20 kB: a dozen per run); struct layout regenerated from the Go struct tags (Gen/CodecFields.v) and compared in C19_msgpack_layout_is_the_source_layout",
        ["the msgpack DECODER library (shamaton) is tied to the model only through the round-trip monitor on the real code (the model decoder is proved against the model encoder, the model encoder is byte-exact against the real encoder)",
         "the protobuf runtime is library code: its wire behaviour for these messages is modelled (Model/ProtoWire.v) and compared byte for byte on every run, groups (wire types 3/4) excepted"],
        ("Model/Codec.vo", "Run/CheckCodec.vo")),
    "C17": make_pure_check("C17", "cache",
        "seeded sequential sequences of SaveAwaitedTransaction / RemoveAwaitedTransaction (by the receiver, by others, unknown hashes, repeats, issuer = receiver) on the real cache over 4 "
        "addresses, with ReadTransactions of EVERY address after EVERY operation; plus concurrent rounds (16 goroutines saving/reading then 8 removing on one receiver); "
        "non-trivial = distinct sequences that end with something still awaiting",
        "result class of every call and the listed set of every address after every operation vs the Coq model (CheckCache.cmismatches, coqc vm_compute) and vs a map-based reference (monitor)",
        ["operations are atomic because they run under Hippocampus.mux (premise of applying the sequential theorem to concurrent use; the lock discipline is C18's subject)",
         "expiry (5 min life window of bigcache) is not modelled nor exercised"],
        ("Run/CheckCache.vo",)),
}


# ------------------------------------------------------------------ C19 also looks at the wire form inside the notary's read replies
def _wrap_C19():
    base = PROPS["C19"]["run"]

    def run(ctx, tier):
        r = base(ctx, tier)
        tool = _tool("notaryh")
        summ, cases = os.path.join(ctx.work, "notary_wire_%s.json" % tier), os.path.join(ctx.work, "notary_wire_%s.v" % tier)
        rc, out, err = sh([tool, "-tier", "quick", "-seed", str(ctx.seed), "-summary", summ, "-out", cases], timeout=1500, cwd=ctx.work)
        if rc != 0:
            raise RuntimeError("notaryh failed rc=%s %s %s" % (rc, out[-1500:], err[-1500:]))
        s = json.load(open(summ))
        for v in (s.get("violations") or []):
            if v["key"].startswith("wire-form"):
                r["violations"].append({"key": v["key"], "what": v["what"][:500]})
        r["evaluations"] += s["evaluations"]
        r["rule"] += "; plus every read reply of the real notary server (Waiting) in seeded call sequences: each transaction of a reply, mapped back from its wire form, is one of the saved " \
                     "transactions with every signed field intact, still verifies, and no two entries of a reply coincide"
        r.setdefault("extra", {}).setdefault("branches_reached", {})["notary.replies_with_several_transactions"] = (s.get("kinds") or {}).get("wire.reply_with_several_transactions", 0)
        return r
    PROPS["C19"]["run"] = run

    def replay(ctx, path):
        r = json.load(open(path))
        print(json.dumps(r, indent=1)[:3000])
        res = run(ctx, r.get("tier", "quick"))
        if res["violations"] or res["mismatches"]:
            print("VIOLATION property=C19 replay=%s" % path)
            return 1
        print("replay: property holds on the current tree")
        return 0
    PROPS["C19"]["replay"] = replay


_wrap_C19()
