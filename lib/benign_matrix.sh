#!/bin/bash
# run every harmless rewrite against the quick checks of the properties whose code it touches
cd "$(dirname "$0")/.."
for d in ${@:-seeded/benign-*} ; do props=$(python3 -c "import json;print(' '.join(json.load(open('$d/meta.json'))['check_props']))"); python3 lib/seedtool.py check $d $props 2>&1 | grep "^benign" | cut -c1-330; done
