#!/bin/bash
# run every seeded change against its target property's quick check (and benign rewrites against theirs); results go into seeded/*/meta.json
cd "$(dirname "$0")/.."
for d in seeded/C??-? ; do python3 lib/seedtool.py check $d 2>&1 | tail -1 | cut -c1-400; done
for d in seeded/benign-* ; do props=$(python3 -c "import json;print(' '.join(json.load(open('$d/meta.json'))['check_props']))"); python3 lib/seedtool.py check $d $props 2>&1 | grep "^benign" | cut -c1-300; done
